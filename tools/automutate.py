#!/venv/bin/python
"""automutate.py Cxx [--n 20] [--seed 1] [--tier quick] [--list]

Systematic first-order mutants (operator / constant / call-stripping mutations, mutmut-style) inside the code regions a property is ANCHORED in
(properties.jsonl -> anchors.mechanism[].where), each applied to a scratch copy of /repo/src (TALLY_SRC) and run against the property's own
check.  Complements the hand-written mutants and the seeded changes: it is blind to intent, so its survivors are either equivalent mutants or
code the generators never reach.  Never touches /repo; evidence / replays of mutant runs go to the scratch directory.

Report: one line per mutant + mutants/auto/<Cxx>.json
"""
import argparse, ast, json, os, random, re, shutil, subprocess, sys, tempfile, time

VERIF = os.path.dirname(os.path.dirname(os.path.abspath(__file__)))
REPO_SRC = '/repo/src'


def regions(prop):
    out = []
    for m in prop['anchors']['mechanism']:
        for part in m['where'].split(';'):
            part = part.strip()
            mm = re.match(r'(src/tally/[\w/]+\.py):([\d,\-\s]+)$', part)
            if not mm:
                continue
            for rng in mm.group(2).split(','):
                rng = rng.strip()
                if '-' in rng:
                    a, b = rng.split('-')
                    out.append((mm.group(1), int(a), int(b)))
                elif rng:
                    out.append((mm.group(1), int(rng), int(rng)))
    return out


CMP = {ast.Lt: '<=', ast.LtE: '<', ast.Gt: '>=', ast.GtE: '>', ast.Eq: '!=', ast.NotEq: '==', ast.In: 'not in', ast.NotIn: 'in', ast.Is: 'is not', ast.IsNot: 'is'}
CMP_TXT = {ast.Lt: '<', ast.LtE: '<=', ast.Gt: '>', ast.GtE: '>=', ast.Eq: '==', ast.NotEq: '!=', ast.In: 'in', ast.NotIn: 'not in', ast.Is: 'is', ast.IsNot: 'is not'}


def seg(src_lines, node):
    if node.lineno == node.end_lineno:
        return src_lines[node.lineno - 1][node.col_offset:node.end_col_offset]
    parts = [src_lines[node.lineno - 1][node.col_offset:]] + src_lines[node.lineno:node.end_lineno - 1] + [src_lines[node.end_lineno - 1][:node.end_col_offset]]
    return '\n'.join(parts)


def replace(src, node, new):
    lines = src.split('\n')
    # byte offsets vs characters: tally sources are ASCII in the anchored regions except a few comments; use utf-8 aware slicing
    def off(line, col):
        return len(lines[line - 1].encode('utf-8')[:col].decode('utf-8', 'ignore'))
    a, b = off(node.lineno, node.col_offset), off(node.end_lineno, node.end_col_offset)
    if node.lineno == node.end_lineno:
        lines[node.lineno - 1] = lines[node.lineno - 1][:a] + new + lines[node.lineno - 1][b:]
    else:
        lines[node.lineno - 1:node.end_lineno] = [lines[node.lineno - 1][:a] + new + lines[node.end_lineno - 1][b:]]
    return '\n'.join(lines)


def mutants_of(path, lo, hi):
    src = open(path, encoding='utf-8').read()
    tree = ast.parse(src)
    lines = src.split('\n')
    out = []
    for node in ast.walk(tree):
        ln = getattr(node, 'lineno', None)
        if ln is None or not (lo <= ln <= hi):
            continue
        if isinstance(node, ast.Compare) and len(node.ops) == 1:
            op = node.ops[0]
            left, right = seg(lines, node.left), seg(lines, node.comparators[0])
            if type(op) in CMP:
                out.append((node, f'{left} {CMP[type(op)]} {right}', f'{CMP_TXT[type(op)]} -> {CMP[type(op)]}'))
        elif isinstance(node, ast.BoolOp) and len(node.values) == 2:
            a, b = seg(lines, node.values[0]), seg(lines, node.values[1])
            new = 'or' if isinstance(node.op, ast.And) else 'and'
            out.append((node, f'{a} {new} {b}', f'boolop -> {new}'))
        elif isinstance(node, ast.UnaryOp) and isinstance(node.op, ast.Not):
            out.append((node, f'({seg(lines, node.operand)})', 'drop not'))
        elif isinstance(node, ast.Constant) and not isinstance(getattr(node, 'parent', None), ast.Expr):
            v = node.value
            if isinstance(v, bool):
                out.append((node, repr(not v), f'{v} -> {not v}'))
            elif isinstance(v, int) and -1000 < v < 1000:
                out.append((node, repr(v + 1), f'{v} -> {v + 1}'))
                if v not in (0,):
                    out.append((node, '0', f'{v} -> 0'))
            elif isinstance(v, float):
                out.append((node, repr(v + 0.1), f'{v} -> {v + 0.1}'))
        elif isinstance(node, ast.Call) and isinstance(node.func, ast.Attribute) and node.func.attr in ('lower', 'upper', 'strip', 'copy') and not node.args:
            out.append((node, seg(lines, node.func.value), f'drop .{node.func.attr}()'))
        elif isinstance(node, ast.BinOp) and isinstance(node.op, (ast.Add, ast.Sub)):
            a, b = seg(lines, node.left), seg(lines, node.right)
            if not isinstance(node.left, ast.Constant) or not isinstance(node.left.value, str):
                new = '-' if isinstance(node.op, ast.Add) else '+'
                out.append((node, f'{a} {new} {b}', f'binop -> {new}'))
        elif isinstance(node, (ast.Break, ast.Continue)):
            out.append((node, 'pass', f'{type(node).__name__.lower()} -> pass'))
        elif isinstance(node, ast.IfExp):
            out.append((node, seg(lines, node.body), 'ifexp -> body'))
    res = []
    for node, new, what in out:
        try:
            msrc = replace(src, node, new)
            ast.parse(msrc)
        except (SyntaxError, ValueError, IndexError):
            continue
        if msrc != src:
            res.append({'line': node.lineno, 'what': what, 'old': seg(lines, node)[:80], 'src': msrc})
    return res


def run_check(prop, src, tier, seed):
    base = os.path.dirname(src)
    env = dict(os.environ, TALLY_SRC=src, VERIF_SEED=str(seed), TV_EVIDENCE_DIR=os.path.join(base, 'evidence'), TV_REPLAY_DIR=os.path.join(base, 'replays'))
    t0 = time.time()
    try:
        p = subprocess.run([os.path.join(VERIF, 'vcheck'), prop, '--tier', tier], env=env, capture_output=True, text=True, timeout=900)
        rc, out = p.returncode, p.stdout
    except subprocess.TimeoutExpired:
        rc, out = 124, ''
    viol = [l for l in out.splitlines() if l.startswith('VIOLATION')]
    return rc, viol, time.time() - t0


def tests_pass(src):
    """does the repository's own (runnable) test suite still pass with the mutant? -> (bool, summary)"""
    root = os.path.dirname(src)
    if not os.path.exists(os.path.join(root, 'tests')):
        shutil.copytree('/repo/tests', os.path.join(root, 'tests'))
        for f in ('pyproject.toml', 'pytest.ini', 'setup.cfg', 'conftest.py'):
            if os.path.exists(os.path.join('/repo', f)):
                shutil.copy(os.path.join('/repo', f), root)
    p = subprocess.run(['/venv/bin/python', '-m', 'pytest', '-q', '-p', 'no:cacheprovider', '-n', '8', '--timeout=900', '-x', '--deselect', 'tests/test_cli.py', '--ignore', 'tests/test_report_html.py',
                        '--ignore', 'tests/e2e'], cwd=root, env=dict(os.environ, PYTHONPATH=src), capture_output=True, text=True)
    tail = (p.stdout.strip().splitlines() or [''])[-1]
    return ('failed' not in tail and 'error' not in tail.lower()), tail


def main():
    ap = argparse.ArgumentParser()
    ap.add_argument('prop'); ap.add_argument('--n', type=int, default=20); ap.add_argument('--seed', type=int, default=1); ap.add_argument('--tier', default='quick')
    ap.add_argument('--list', action='store_true'); ap.add_argument('--tests', action='store_true', help='for survivors, also run the repository test suite')
    a = ap.parse_args()
    P = {json.loads(l)['id']: json.loads(l) for l in open(os.path.join(VERIF, 'properties.jsonl'))}[a.prop]
    allm = []
    for rel, lo, hi in regions(P):
        path = os.path.join('/repo', rel)
        if os.path.exists(path):
            for m in mutants_of(path, lo, hi):
                m['file'] = rel
                allm.append(m)
    seen, uniq = set(), []
    for m in allm:
        k = (m['file'], m['line'], m['what'], m['old'])
        if k not in seen:
            seen.add(k); uniq.append(m)
    random.Random(a.seed).shuffle(uniq)
    picked = uniq[:a.n]
    print(f'{a.prop}: {len(uniq)} candidate mutants in the anchored regions, running {len(picked)}', flush=True)
    if a.list:
        for m in picked:
            print(f"  {m['file']}:{m['line']} {m['what']}   [{m['old']}]")
        return
    results = []
    for m in picked:
        root = tempfile.mkdtemp(prefix='tvauto_')
        try:
            shutil.copytree(REPO_SRC, os.path.join(root, 'src'))
            with open(os.path.join(root, m['file']), 'w', encoding='utf-8') as f:
                f.write(m['src'])
            rc, viol, dt = run_check(a.prop, os.path.join(root, 'src'), a.tier, a.seed)
            status = 'KILLED' if rc == 1 and viol else ('HARNESS' if rc == 2 else ('TIMEOUT' if rc == 124 else 'SURVIVED'))
            extra = ''
            if status == 'SURVIVED' and a.tests:
                ok, tail = tests_pass(os.path.join(root, 'src'))
                extra = ' tests:' + ('pass' if ok else 'FAIL')
                m['tests_pass'] = ok
            print(f"{status:9s} {m['file']}:{m['line']} {m['what']}   [{m['old']}] {dt:.0f}s{extra}", flush=True)
            results.append({k: v for k, v in m.items() if k != 'src'} | {'status': status, 'seconds': round(dt, 1)})
        finally:
            shutil.rmtree(root, ignore_errors=True)
    os.makedirs(os.path.join(VERIF, 'mutants', 'auto'), exist_ok=True)
    json.dump({'property': a.prop, 'tier': a.tier, 'seed': a.seed, 'candidates': len(uniq), 'run': len(results), 'killed': sum(r['status'] == 'KILLED' for r in results),
               'results': results}, open(os.path.join(VERIF, 'mutants', 'auto', a.prop + '.json'), 'w'), indent=1)
    print(f"{a.prop}: killed {sum(r['status'] == 'KILLED' for r in results)}/{len(results)}")


if __name__ == '__main__':
    main()
