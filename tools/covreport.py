#!/venv/bin/python
"""covreport.py <covdir> <Cxx> [file-substring ...]: lines of tally's sources never executed by the workers of a TV_COV=<covdir> run of check Cxx,
restricted to the files anchored by the property (or the given substrings). A generator-gap finder: read the uncovered lines and ask whether the
property speaks about them."""
import ast, glob, json, os, sys
covdir, pid = sys.argv[1], sys.argv[2]
P = {json.loads(l)['id']: json.loads(l) for l in open('/verif/properties.jsonl')}[pid]
subs = [a for a in sys.argv[3:] if not a.startswith('--')] or [f.replace('src/tally/', '') for f in P['anchors']['files']]
seen = set()
for fn in glob.glob(os.path.join(covdir, pid + '.*.json')):
    seen |= {tuple(x) for x in json.load(open(fn))}
root = '/repo/src/tally'
for rel in sorted({f for f, _ in seen} | set(subs)):
    if not any(s in rel for s in subs) or not rel.endswith('.py'):
        continue
    path = os.path.join(root, rel)
    if not os.path.exists(path):
        continue
    src = open(path).read()
    lines = src.splitlines()
    code = compile(src, path, 'exec')
    execable = set()
    stack = [code]
    while stack:
        c = stack.pop()
        execable |= {l for _, _, l in c.co_lines() if l}
        stack.extend(k for k in c.co_consts if hasattr(k, 'co_lines'))
    # function spans
    tree = ast.parse(src)
    fnodes = [n for n in ast.walk(tree) if isinstance(n, (ast.FunctionDef, ast.AsyncFunctionDef))]
    funcs = [(n.lineno, n.end_lineno, n.name) for n in fnodes]
    for n in fnodes:  # signature lines and docstrings run at import time / never: not interesting
        execable -= set(range(n.lineno, n.body[0].lineno))
        if isinstance(n.body[0], ast.Expr) and isinstance(getattr(n.body[0], 'value', None), ast.Constant):
            execable -= set(range(n.body[0].lineno, n.body[0].end_lineno + 1))
    hit = {l for f, l in seen if f == rel}
    miss = sorted(execable - hit)
    never = []
    print(f'=== {rel}: {len(execable & hit)}/{len(execable)} executable lines hit')
    by_fn = {}
    for l in miss:
        fn = min((f for f in funcs if f[0] <= l <= f[1]), key=lambda f: f[1] - f[0], default=(0, 0, '<module>'))
        by_fn.setdefault(fn, []).append(l)
    for fn, ls in sorted(by_fn.items()):
        total = len([l for l in execable if fn[0] <= l <= fn[1]]) or 1
        if fn[2] == '<module>':
            continue
        if len(ls) >= total:
            never.append(fn[2])
            continue
        print(f'  {fn[2]} ({fn[0]}-{fn[1]}): {len(ls)}/{total} lines missed')
        for l in ls[:40]:
            print(f'      {l}: {lines[l - 1].strip()[:130]}')
    if never:
        print('  never called: ' + ', '.join(never))
