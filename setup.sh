#!/bin/bash
# Offline setup: make sure hypothesis is importable by /venv (it is pre-installed on this image; the wheelhouse is the fallback).
/venv/bin/python -c "import hypothesis" 2>/dev/null || /venv/bin/pip install --no-index --find-links /opt/veriftools/wheels hypothesis
/venv/bin/python -c "import hypothesis, yaml; print('setup ok: hypothesis', hypothesis.__version__)"
