"""Budget directories: generator (JSON-able spec), materialisation on disk, and the composition the report must equal."""
from __future__ import annotations

import copy
import io
import os

import yaml
from hypothesis import strategies as st

from tv import csvrules, lang, rules as R, views as V
from tv.props import C05

CURRENCIES = ['${amount}', '{amount} zl', '£{amount}', '€{amount}']
SOURCE_NAMES = ['Amex', 'Chase', 'alice-amex', 'BANK']
SIGN_TAG = 'neg-amount'
# a small pool of format shapes so that several sources often share the SAME format string while differing in per-source settings
SHARED_LAYOUTS = [
    {'cols': ['date', 'description', 'amount'], 'template': None, 'datefmt': '%Y-%m-%d'},
    {'cols': ['date', 'description', 'amount', 'memo'], 'template': None, 'datefmt': '%m/%d/%Y'},
    {'cols': ['date', 'skip', 'description', 'amount', 'type'], 'template': None, 'datefmt': '%Y-%m-%d'},
]


@st.composite
def source(draw, idx):
    if draw(st.integers(0, 2)) == 0:
        lay = draw(C05.layout())
    else:
        base = draw(st.sampled_from(SHARED_LAYOUTS))
        lay = dict(base, sign=draw(st.sampled_from(['', '', 'override'])), dialect=draw(st.sampled_from(['comma', 'comma', ';', 'tab', '|'])), header=draw(st.booleans()),
                   decimal=draw(st.sampled_from(['.', '.', ','])), spell=draw(st.sampled_from([0, 0, 1 << 14])), source='x')
    # one card split over several files: two sources may carry the SAME name
    nm = SOURCE_NAMES[0] if (idx > 0 and draw(st.integers(0, 4)) == 0) else SOURCE_NAMES[idx % len(SOURCE_NAMES)] + ('' if idx < len(SOURCE_NAMES) else str(idx))
    lay = dict(lay, source=nm)
    rows = draw(st.lists(C05.row(lay), min_size=1, max_size=8))
    # budget descriptions: mostly merchant-like words so that rules match
    for r in rows:
        if draw(st.integers(0, 3)) > 0:
            r['desc'] = lang.flip_case(' '.join(draw(st.lists(lang.word, min_size=1, max_size=3))), draw(st.one_of(st.just(0), st.integers(0, 65535))))
    # the same charge repeated in one file (same description, amount, date) with different extra columns / location
    good = [r for r in rows if r['kind'] == 'good']
    if good and draw(st.integers(0, 2)) == 0:
        base = draw(st.sampled_from(good))
        twin = copy.deepcopy(base)
        twin['customs'] = {c: draw(st.sampled_from(['WIRE', 'ACH-OUT', 'alice', 'bob', ''])) for c in twin['customs']}
        twin['loc'] = draw(st.sampled_from(['', 'WA', 'NY', base['loc']]))
        rows.insert(draw(st.integers(0, len(rows))), twin)
    state = draw(st.sampled_from(['ok', 'ok', 'ok', 'ok', 'ok', 'ok', 'missing', 'garbage', 'directory', 'late_garbage', 'unclosed_quote']))
    if state == 'unclosed_quote' and lay.get('dialect') != 'comma':
        state = 'ok'  # only the csv-module reader trips over an unclosed quote; a regex-split file just carries one more junk line
    return {'layout': lay, 'rows': rows, 'state': state, 'path_style': draw(st.sampled_from(['plain', 'plain', 'plain', 'dot_slash', 'absolute', 'hidden_dir', 'parent']))}


@st.composite
def budget(draw, min_sources=1, max_sources=4, allow_broken=True, rules_kinds=('rules', 'rules', 'csv', 'none')):
    n = draw(st.integers(min_sources, max_sources))
    sources = [draw(source(i)) for i in range(n)]
    if not allow_broken:
        for s in sources:
            s['state'] = 'ok'
    if all(s['state'] != 'ok' for s in sources):
        sources[0]['state'] = 'ok'
    supp = draw(lang.rows_case) if draw(st.booleans()) else None
    kind = draw(st.sampled_from(rules_kinds))
    b = {'sources': sources, 'supplemental': supp, 'rules_kind': kind,
         'rule_mode': draw(st.sampled_from(['first_match', 'first_match', 'most_specific', None, 'bogus'])),
         'views': draw(st.one_of(st.none(), V.views_file(), st.just('corrupt'))), 'currency': draw(st.sampled_from(CURRENCIES)),
         'supp_position': draw(st.sampled_from(['first', 'last'])),
         # the supplemental files have their own delimiter / decimal-separator settings too
         'supp_style': draw(st.sampled_from([{'delim': ',', 'dec': '.'}, {'delim': ',', 'dec': '.'}, {'delim': ';', 'dec': ','}, {'delim': 'tab', 'dec': '.'}, {'delim': ';', 'dec': '.'}]))}
    words = sorted({w for s_ in sources for r in s_['rows'] for w in r['desc'].upper().split() if w.isalnum() and len(w) > 2}) or ['NETFLIX']
    if kind == 'rules':
        rf = draw(R.rule_file(max_rules=5, depth=1))
        extra = [{'name': f'Known {w.title()}', 'match': ['match', 'contains', None, w], 'category': draw(st.sampled_from(R.CATEGORIES)), 'subcategory': draw(st.sampled_from(R.SUBCATS)),
                  'merchant': None, 'priority': None, 'tags': draw(st.lists(st.sampled_from(['recurring', 'income', 'transfer']), max_size=1)), 'lets': [], 'fields': []}
                 for w in draw(st.lists(st.sampled_from(words), min_size=1, max_size=3, unique=True))]
        # one merchant name, two categories: two rules share a [name] (e.g. Costco fuel vs Costco groceries) - category totals are sums over transactions
        if len(extra) >= 2 and draw(st.integers(0, 3)) > 0:
            extra[1] = dict(extra[1], name=extra[0]['name'], category=[c for c in R.CATEGORIES if c != extra[0]['category']][0], subcategory='Other Sub')
        # two merchants whose names differ only in letter case ([Costco] and [COSTCO]): they are different merchants to `up`, explain and discover
        if extra and len(words) >= 2 and draw(st.integers(0, 2)) == 0:
            w2 = draw(st.sampled_from([w for w in words if w.title() != extra[0]['name'].split(' ', 1)[-1]] or words))
            extra.insert(0, {'name': extra[0]['name'].upper(), 'match': ['match', 'contains', None, w2], 'category': draw(st.sampled_from(R.CATEGORIES)), 'subcategory': 'Upper Sub',
                          'merchant': None, 'priority': None, 'tags': [], 'lets': [], 'fields': []})
        # rules deciding on what only one row of a repeated charge carries: its extra columns and its location
        customs = sorted({(c, v.strip()) for s_ in sources for r in s_['rows'] for c, v in r['customs'].items() if v.strip() and c in lang.FIELD_KEYS and '"' not in v and '\\' not in v})
        locs = sorted({r['loc'].strip() for s_ in sources for r in s_['rows'] if 'location' in s_['layout']['cols'] and r['loc'].strip()})
        for _ in range(draw(st.integers(0, 2))):
            if customs and draw(st.booleans()):
                c, v = draw(st.sampled_from(customs))
                m = ['cmp', ['field', c], [['==', ['str', v]]]]
                if draw(st.booleans()):
                    m = ['and', [['exists', ['field', c]], m]]  # guarded; unguarded, the rule cannot be evaluated for rows of sources without that column (and is skipped for THOSE rows only)
            elif locs:
                m = ['cmp', ['name', 'location'], [['==', ['str', draw(st.sampled_from(locs))]]]]
            else:
                continue
            extra.insert(0, {'name': f'Row fact {len(extra)}', 'match': m, 'category': draw(st.sampled_from(R.CATEGORIES)), 'subcategory': draw(st.sampled_from(R.SUBCATS)),
                             'merchant': None, 'priority': None, 'tags': draw(st.lists(st.sampled_from(['recurring', 'income', 'transfer']), max_size=1)), 'lets': [], 'fields': []})
        # a rule that is true exactly when a supplemental file is read with its own settings (an amount of its first row is found)
        for nm, rows_ in sorted((supp or {}).items()):
            good = [r for r in rows_ if any(str(v).strip() for v in r.values())]
            if good and draw(st.booleans()):
                extra.append({'name': f'Supp {nm}', 'match': ['anygen', ['cmp', ['attr', 'r', 'amount'], [['==', ['num', good[0]['amount']]]]], 'r', ['name', nm], None],
                              'category': '', 'subcategory': '', 'merchant': None, 'priority': None, 'tags': [f'has-{nm}'], 'lets': [], 'fields': []})
                # a column that is not one of the documented numeric ones reaches the rules as TEXT, also when its cells look like numbers (check / order numbers)
                extra.append({'name': f'Supp text {nm}', 'match': ['anygen', ['cmp', ['attr', 'r', 'qty'], [['==', ['str', str(good[0]['qty'])]]]], 'r', ['name', nm], None],
                              'category': '', 'subcategory': '', 'merchant': None, 'priority': None, 'tags': [f'qty-text-{nm}'], 'lets': [], 'fields': []})
        # the same look-up through a TOP-LEVEL VARIABLE (supplemental sources are available to every rule expression, variables included)
        supp_vars = []
        for nm, rows_ in sorted((supp or {}).items()):
            good = [r for r in rows_ if any(str(v).strip() for v in r.values())]
            if good and draw(st.booleans()):
                supp_vars.append([f'seen_{nm}', ['anygen', ['cmp', ['attr', 'r', 'amount'], [['==', ['num', good[0]['amount']]]]], 'r', ['name', nm], None]])
                extra.append({'name': f'Supp var {nm}', 'match': ['var', f'seen_{nm}'], 'category': '', 'subcategory': '', 'merchant': None, 'priority': None, 'tags': [f'var-has-{nm}'],
                              'lets': [], 'fields': []})
        if supp_vars:
            rf = dict(rf, vars=list(rf.get('vars', [])) + supp_vars)
        # a tag-only witness of the amount the rules see: it must be the amount AFTER the source's sign setting (the one the report shows)
        if draw(st.integers(0, 3)) > 0:
            extra.append({'name': 'Sign Witness', 'match': ['cmp', ['name', 'amount'], [['<', ['num', 0]]]], 'category': '', 'subcategory': '', 'merchant': None, 'priority': None,
                          'tags': [SIGN_TAG], 'lets': [], 'fields': []})
        pos = draw(st.integers(0, len(rf['rules'])))
        b['rf'] = dict(rf, rules=rf['rules'][:pos] + extra + rf['rules'][pos:])
    elif kind == 'csv':
        rules = [r for r in draw(csvrules.csv_file(max_rules=5)) if not csvrules.looks_like_expression(r['pattern']) and not r['pattern'].startswith('#')]
        for w in draw(st.lists(st.sampled_from(words), min_size=1, max_size=2, unique=True)):
            rules.append({'pattern': w, 'mods': [], 'merchant': w.title(), 'category': 'Shopping', 'subcategory': 'Online', 'tags': []})
        b['csv'] = rules
    return b


def supp_rows(b):
    """{name: rows} exactly as the harness wrote them (typed as documented: date -> date, amount -> float, rest text)."""
    if not b['supplemental']:
        return {}
    out = {}
    for name, rows in b['supplemental'].items():
        rr = [{'item': r['item'].strip(), 'amount': float(repr(r['amount'])), 'date': __import__('datetime').date.fromisoformat(r['date']), 'qty': str(r['qty'])} for r in rows
              if any(str(v).strip() for v in r.values())]
        if rr:
            out[name] = rr
    return out


def materialise(b, bd, drop_source=None, mutate_source=None):
    """Write the budget into cli.Budget `bd`; returns per-source info (path, src dict, expected rows)."""
    import csv
    settings = {'year': 2024, 'currency_format': b['currency'], 'data_sources': []}
    if b['rule_mode'] is not None:
        settings['rule_mode'] = b['rule_mode']
    info = []
    supp_entries = []
    if b['supplemental']:
        for name, rows in b['supplemental'].items():
            style = b.get('supp_style') or {'delim': ',', 'dec': '.'}
            buf = io.StringIO()
            w = csv.writer(buf, lineterminator='\n', delimiter={'tab': '\t'}.get(style['delim'], style['delim']))
            w.writerow(['Date', 'Item', 'Amount', 'Qty'])
            for r in rows:
                w.writerow([r['date'], r['item'], repr(r['amount']).replace('.', style['dec']), r['qty']])
            bd.write(f'data/{name}.csv', buf.getvalue())
            entry = {'name': name.capitalize() if name == 'orders' else name, 'file': f'data/{name}.csv', 'format': '{date:%Y-%m-%d},{item},{amount},{qty}',
                     'columns': {'description': '{item}'}, 'supplemental': True}
            if style['delim'] != ',':
                entry['delimiter'] = style['delim']
            if style['dec'] != '.':
                entry['decimal_separator'] = style['dec']
            supp_entries.append(entry)
    for i, s in enumerate(b['sources']):
        case = {'layout': s['layout'], 'rows': s['rows']}
        if mutate_source == i:
            case = {'layout': s['layout'], 'rows': s['rows'][:-1]}
        text, src, expected, _ = C05.build(case)
        rel = f'data/src{i}.csv'
        # the `file:` setting as users write it: relative to the budget folder, with a leading ./, absolute, in a dot-directory, or through ../
        ps = s.get('path_style', 'plain')
        if ps == 'hidden_dir':
            rel = f'.statements/src{i}.csv'
        setting = {'dot_slash': './' + rel, 'absolute': bd.path(rel), 'parent': '../' + os.path.basename(bd.root.rstrip('/')) + '/' + rel}.get(ps, rel)
        src = dict(src, file=setting)
        state = s['state'] if drop_source != i else 'missing'
        if state == 'ok':
            bd.write(rel, text)
        elif state == 'garbage':
            bd.write(rel, b'\xff\xfe\x00\x80garbage\xc3\x28\n' * 3, binary=True)
        elif state == 'late_garbage':
            # readable rows first, the undecodable bytes only beyond the reader's first 8 KiB chunk: the file fails PART-WAY through reading
            bd.write(rel, text.encode('utf-8') + b'\n' * 9000 + b'\xff\xfe\x00\x80garbage\xc3\x28\n' * 3, binary=True)
        elif state == 'unclosed_quote':
            # a damaged export: a quote that is never closed, followed by more than the csv module's field limit - the READER gives up (csv.Error)
            bd.write(rel, text + '"' + 'x' * 140000 + '\n')
        elif state == 'directory':
            os.makedirs(bd.path(rel), exist_ok=True)
        info.append({'case': case, 'src': src, 'state': state, 'path': bd.path(rel), 'expected_rows': expected if state == 'ok' else []})
    entries = [i_['src'] for i_ in info]
    settings['data_sources'] = (supp_entries + entries) if b['supp_position'] == 'first' else (entries + supp_entries)
    rules_path = None
    if b['rules_kind'] == 'rules':
        rules_path = bd.write('config/merchants.rules', R.render_file(b['rf']))
        settings['merchants_file'] = 'config/merchants.rules'
    elif b['rules_kind'] == 'csv':
        rules_path = bd.write('config/merchant_categories.csv', csvrules.render_csv(b['csv']))
    if b['views'] is not None:
        settings['views_file'] = 'config/views.rules'
        bd.write('config/views.rules', '[Broken view\nfilter: total >\n' if b['views'] == 'corrupt' else V.render_views(b['views']))
    bd.write('config/settings.yaml', yaml.safe_dump(settings, sort_keys=False, allow_unicode=True, width=1000))
    os.makedirs(bd.path('output'), exist_ok=True)
    return {'sources': info, 'rules_path': rules_path, 'settings': settings}


def compose(b, mat):
    """The report's content as the statement defines it: totals(classify(parse(sources))) built from tally's own components,
    each called with the settings the harness generated (never through load_config / cmd_run)."""
    from tally import section_engine as se
    from tally.analyzer import analyze_transactions, classify_by_sections
    from tally.format_parser import parse_format_string
    from tally.merchant_utils import get_all_rules, get_transforms
    from tally.parsers import parse_generic_csv
    from tv import obs
    obs.clear_caches()
    mode = b['rule_mode'] if b['rule_mode'] in ('first_match', 'most_specific') else 'first_match'
    rp = mat['rules_path']
    rules = get_all_rules(rp, match_mode=mode) if rp else get_all_rules(match_mode=mode)
    transforms = get_transforms(rp, match_mode=mode) if rp else []
    supp = supp_rows(b)
    supp = {k.lower(): v for k, v in supp.items()}
    txns = []
    per_source = {}
    row_mismatch = None
    for i_ in mat['sources']:
        if i_['state'] != 'ok':
            continue
        src = i_['src']
        spec = parse_format_string(src['format'], (src.get('columns') or {}).get('description'))
        if 'delimiter' in src:
            spec.delimiter = src['delimiter']
        if 'has_header' in src:
            spec.has_header = src['has_header']
        if 'negate_amount' in src:
            spec.negate_amount = src['negate_amount']
        got = parse_generic_csv(i_['path'], spec, rules, source_name=src['name'], decimal_separator=src.get('decimal_separator', '.'), transforms=transforms, data_sources=supp)
        # classify(parse(.)) row by row: the file's transactions must be those of its rows read one at a time (same settings, same rules)
        alone = []
        for r in i_['case']['rows']:
            text1 = C05.build({'layout': i_['case']['layout'], 'rows': [r]})[0]
            p1 = i_['path'] + '.row'
            with open(p1, 'w', encoding='utf-8', newline='') as f:
                f.write(text1)
            # read alone means: by rules loaded afresh - what the engine met in earlier rows / sources is no fact about this row
            obs.clear_caches()
            rules1 = get_all_rules(rp, match_mode=mode) if rp else get_all_rules(match_mode=mode)
            transforms1 = get_transforms(rp, match_mode=mode) if rp else []
            alone.extend(parse_generic_csv(p1, spec, rules1, source_name=src['name'], decimal_separator=src.get('decimal_separator', '.'), transforms=transforms1, data_sources=supp))
            os.unlink(p1)
        fact = lambda t: (t['raw_description'], t['amount'], str(t['date']), t['merchant'], t['category'], t['subcategory'], sorted(t['tags']), t.get('extra_fields') or None,
                          t['field'], t['location'])
        if row_mismatch is None and [fact(t) for t in got] != [fact(t) for t in alone]:
            pairs = [(fact(x), fact(y)) for x, y in zip(got, alone) if fact(x) != fact(y)]
            row_mismatch = {'source': src['name'], 'in_file': pairs[0][0] if pairs else len(got), 'alone': pairs[0][1] if pairs else len(alone)}
        if row_mismatch is None and transforms and all(fp == 'field.description' for fp, _ in transforms):
            # "transformed and classified": a row no rule categorizes is named after the description the rules saw - the TRANSFORMED one
            from tally.merchant_utils import apply_transforms, extract_merchant_name
            for t in got:
                if t['category'] == 'Unknown' and '_raw_description' in t:
                    tx = {'description': t['raw_description'], 'amount': t['amount'] or 0, 'field': t['field'], 'source': t['source'], 'location': t['location'], 'date': t['date'].date()}
                    seen = apply_transforms(tx, transforms).get('description', t['raw_description'])
                    if t['merchant'] != extract_merchant_name(seen):
                        row_mismatch = {'source': src['name'], 'in_file': f"the uncategorized row {t['raw_description']!r} is listed as merchant {t['merchant']!r}",
                                        'alone': f'the rules file transforms its description to {seen!r}, which names the merchant {extract_merchant_name(seen)!r}'}
                        break
        if row_mismatch is None and b.get('rf'):
            # by construction every transaction finds the supplemental row the witness rules look for - directly and through a top-level variable
            for r_ in b['rf']['rules']:
                if r_['name'].startswith(('Supp var ', 'Supp ')) and not r_['name'].startswith('Supp text') and r_['tags'] and r_['name'].split()[-1].lower() in supp:
                    lacking = [t for t in got if r_['tags'][0] not in t['tags']]
                    if lacking:
                        row_mismatch = {'source': src['name'], 'in_file': fact(lacking[0]),
                                        'alone': f'rule [{r_["name"]}] finds a row of the supplemental source for EVERY transaction (tag {r_["tags"][0]}) - it was not applied here'}
                        break
        if row_mismatch is None and b.get('rf') and any(r['name'] == 'Sign Witness' for r in b['rf']['rules']):
            for t in got:
                if (SIGN_TAG in t['tags']) != (t['amount'] < 0):
                    row_mismatch = {'source': src['name'], 'in_file': fact(t), 'alone': f'the rule "amount < 0" (tag {SIGN_TAG}) must apply exactly when the reported amount is negative'}
                    break
        if row_mismatch is None:
            # by construction: the source contributes exactly its well-formed rows, each with the amount its cell denotes under the source's own settings
            fx = lambda d: (d['raw_description'], round(float(d['amount']), 6), str(d['date'])[:10])
            exp_rows, got_rows = [fx(e) for e in i_['expected_rows']], [fx(t) for t in got]
            if exp_rows != got_rows:
                miss = [x for x in exp_rows if x not in got_rows][:2]
                extra_ = [x for x in got_rows if x not in exp_rows][:2]
                row_mismatch = {'source': src['name'], 'in_file': f'{len(got_rows)} transactions read, not among the rows written: {extra_}',
                                'alone': f'by construction the file holds {len(exp_rows)} well-formed rows; not read: {miss}'}
        per_source[src['name']] = got
        txns.extend(got)
    stats = analyze_transactions(copy.deepcopy(txns)) if txns else None
    views = None
    if stats and b['views'] not in (None, 'corrupt'):
        cfg = se.parse_sections(V.render_views(b['views']))
        res = classify_by_sections(stats['by_merchant'], cfg, stats['num_months'])
        views = {n: {m for m, _ in ms} for n, ms in res.items()}
    return {'txns': txns, 'stats': stats, 'views': views, 'per_source': per_source, 'row_mismatch': row_mismatch}
