"""./vcheck Cxx [--tier quick|thorough] [--replay FILE] [--seed N]"""
import argparse
import importlib
import os
import sys


def main():
    ap = argparse.ArgumentParser()
    ap.add_argument('prop')
    ap.add_argument('--tier', default=os.environ.get('VERIF_TIER') or 'quick', choices=['quick', 'thorough'])
    ap.add_argument('--replay')
    ap.add_argument('--seed', type=int, default=None)
    a = ap.parse_args()
    try:
        from tv import harness
        mod = importlib.import_module('tv.props.' + a.prop)
    except Exception:
        import traceback
        traceback.print_exc()
        print('HARNESS-ERROR import failed', file=sys.stderr)
        return 2
    if a.replay:
        return harness.run_replay(mod, a.replay)
    seed = a.seed if a.seed is not None else int(os.environ.get('VERIF_SEED', '1') or '1')
    try:
        return harness.run_property(mod, a.tier, seed)
    except harness.HarnessError as e:
        print(f'HARNESS-ERROR {e}', file=sys.stderr)
        return 2
    except Exception:
        import traceback
        traceback.print_exc()
        print('HARNESS-ERROR unexpected', file=sys.stderr)
        return 2


if __name__ == '__main__':
    sys.exit(main())
