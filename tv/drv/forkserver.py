"""Fresh-process oracle: a pristine interpreter that has imported tally and evaluated nothing; every request is served by a
fork()ed child that performs {the last load, this operation} and pipes the JSON result back.  python -m tv.drv.forkserver"""
import json
import os
import sys

TALLY_SRC = os.environ.get('TALLY_SRC', '/repo/src')
sys.path.insert(0, TALLY_SRC)


def main():
    import tally.expr_parser, tally.merchant_engine, tally.merchant_utils, tally.parsers, tally.section_engine, tally.format_parser  # noqa
    import difflib, statistics  # noqa
    from tv import histops
    sys.stdout.write(json.dumps({'ready': True}) + '\n')
    sys.stdout.flush()
    for line in sys.stdin:
        req = json.loads(line)
        r, w = os.pipe()
        pid = os.fork()
        if pid == 0:
            os.close(r)
            try:
                st = histops.new_state()
                if req.get('load'):
                    histops.do_load(st, *req['load'])
                res = histops.do_op(st, req['op'])
            except BaseException as e:  # noqa
                res = {'exc': type(e).__name__, 'msg': str(e)[:200]}
            with os.fdopen(w, 'w') as f:
                f.write(json.dumps(res))
            os._exit(0)
        os.close(w)
        with os.fdopen(r) as f:
            data = f.read()
        os.waitpid(pid, 0)
        sys.stdout.write(data + '\n')
        sys.stdout.flush()


if __name__ == '__main__':
    main()
