// Evaluates the CURRENT spending_report.js inside a vm context with stubbed browser globals and serves NDJSON requests.
// usage: node node_classify.js /path/to/spending_report.js ; stdin: one JSON array of cases per line ; stdout: one JSON array of results per line
const fs = require('fs'), vm = require('vm'), readline = require('readline');
const src = fs.readFileSync(process.argv[2], 'utf8');
function stub() { const f = function () { return p; }; const p = new Proxy(f, { get: (t, k) => (k === Symbol.toPrimitive ? () => 0 : p), apply: () => p, construct: () => p }); return p; }
function load(code) {
  const ctx = { Vue: stub(), document: stub(), window: stub(), Chart: stub(), console, localStorage: stub(), navigator: stub(), setTimeout, clearTimeout, location: stub(), history: stub(), URLSearchParams: stub(), requestAnimationFrame: () => 0 };
  ctx.window = ctx; ctx.globalThis = ctx;
  vm.createContext(ctx);
  vm.runInContext(code + '\n;globalThis.__fns = {categorizeAmount, isExcludedFromSpending, calculateCashFlow, isIncome, isTransfer, isInvestment};', ctx, { timeout: 20000 });
  return ctx.__fns;
}
let fns, mode = 'full';
try { fns = load(src); } catch (e) {
  mode = 'slice';
  const cut = src.indexOf('defineComponent(');
  const head = src.slice(0, src.lastIndexOf('\n', src.lastIndexOf('const ', cut)));
  fns = load(head);
}
process.stdout.write(JSON.stringify({ ready: true, mode }) + '\n');
const rl = readline.createInterface({ input: process.stdin });
rl.on('line', (line) => {
  const cases = JSON.parse(line);
  const out = cases.map((c) => {
    const tags = c.tags_missing ? undefined : c.tags;
    try {
      const r = { cat: fns.categorizeAmount(c.amount, tags), excl: fns.isExcludedFromSpending(tags), inc: fns.isIncome(tags), tr: fns.isTransfer(tags), inv: fns.isInvestment(tags) };
      // JSON cannot carry -0 / non-finite distinctly: encode values as strings that round-trip
      const cat = {}; for (const k of Object.keys(r.cat)) cat[k] = Object.is(r.cat[k], -0) ? '-0' : String(r.cat[k]);
      r.cat = cat;
      if (c.flow) r.flow = String(fns.calculateCashFlow(c.flow[0], c.flow[1], c.flow[2]));
      return r;
    } catch (e) { return { error: String(e) }; }
  });
  process.stdout.write(JSON.stringify(out) + '\n');
});
