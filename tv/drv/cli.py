"""Drives tally commands in-process (tally.cli.main with patched argv/cwd/stdio) or as a fresh subprocess, on throw-away budgets."""
from __future__ import annotations

import contextlib
import io
import os
import shutil
import subprocess
import sys
import tempfile
import traceback
from collections import namedtuple

from tv import obs
from tv.harness import TALLY_SRC

Result = namedtuple('Result', 'code out err')


class Budget:
    """A throw-away budget directory (new layout: <root>/config, <root>/data, <root>/output)."""

    def __init__(self, layout='new'):
        self.root = tempfile.mkdtemp(prefix='budget_', dir=obs.tmpdir())
        self.config = os.path.join(self.root, 'config')

    def __enter__(self):
        return self

    def __exit__(self, *a):
        shutil.rmtree(self.root, ignore_errors=True)

    def path(self, rel):
        return os.path.join(self.root, rel)

    def write(self, rel, text, binary=False):
        p = self.path(rel)
        os.makedirs(os.path.dirname(p), exist_ok=True)
        if binary:
            with open(p, 'wb') as f:
                f.write(text)
        else:
            with open(p, 'w', encoding='utf-8', newline='') as f:
                f.write(text)
        return p

    def read(self, rel):
        with open(self.path(rel), encoding='utf-8') as f:
            return f.read()

    def snapshot(self):
        """{relative path: bytes} of every file (directories as None)."""
        snap = {}
        for d, dirs, files in os.walk(self.root):
            for n in dirs:
                snap[os.path.relpath(os.path.join(d, n), self.root) + '/'] = None
            for n in files:
                p = os.path.join(d, n)
                with open(p, 'rb') as f:
                    snap[os.path.relpath(p, self.root)] = f.read()
        return snap


class _NotATty(io.StringIO):
    def isatty(self):
        return False


def run(argv, cwd=None, stdin_text='', fresh=True):
    """tally.cli.main() in this process.  Returns Result(exit code, stdout, stderr); an uncaught exception is reported the way
    the interpreter would (traceback on stderr, exit code 1)."""
    from tally import cli as tcli
    if fresh:  # fresh=False: the command runs in the state the previous in-process command left (an embedding tool calling main() twice)
        obs.clear_caches()
    for attr in ('_deprecated_parser_warnings',):
        v = getattr(tcli, attr, None)
        if isinstance(v, (set, list, dict)):
            v.clear()
    out, err = _NotATty(), _NotATty()
    old = (sys.argv, sys.stdin, os.getcwd())
    code = 0
    try:
        sys.argv = ['tally'] + [str(a) for a in argv]
        sys.stdin = _NotATty(stdin_text)
        if cwd:
            os.chdir(cwd)
        with contextlib.redirect_stdout(out), contextlib.redirect_stderr(err):
            try:
                tcli.main()
            except SystemExit as e:
                code = e.code if isinstance(e.code, int) else (0 if e.code is None else 1)
                if e.code is not None and not isinstance(e.code, int):
                    err.write(str(e.code) + '\n')
            except BaseException:  # noqa
                code = 1
                err.write(traceback.format_exc())
    finally:
        sys.argv, sys.stdin = old[0], old[1]
        os.chdir(old[2])
    return Result(code, out.getvalue(), err.getvalue())


def run_subprocess(argv, cwd=None, timeout=120):
    env = dict(os.environ, PYTHONPATH=TALLY_SRC, PYTHONHASHSEED='0', NO_COLOR='1')
    p = subprocess.run([sys.executable, '-m', 'tally'] + [str(a) for a in argv], cwd=cwd, env=env, capture_output=True, text=True, timeout=timeout, stdin=subprocess.DEVNULL)
    return Result(p.returncode, p.stdout, p.stderr)
