"""Fault / crash injection at file-system effects, for code run in a fork()ed child.

Inside the child, `install(root, k, mode, logfd)` wraps builtins.open (write modes; the returned file's write/close), shutil.move,
os.makedirs, os.mkdir, os.rename and os.replace for paths under `root` with a step counter.  At effect number k:
  mode 'crash'   : os._exit(137) before the effect happens (data still buffered in an open file is lost, as with kill -9)
  mode 'partial' : (close of a written file only) half of the buffered data reaches the file, then os._exit(137)
  mode 'oserror' : the effect raises OSError(EIO) instead of happening
  mode 'dry'     : nothing is injected; the sequence of effects is written to logfd as JSON lines
A write is modelled as: open-for-write creates/truncates the file; write() calls only buffer; close() makes the data durable.
"""
from __future__ import annotations

import builtins
import errno
import json
import os
import shutil

_real_open = builtins.open


class Injector:
    def __init__(self, root, k, mode, logfd=None):
        self.root = os.path.realpath(root)
        self.k, self.mode, self.logfd = k, mode, logfd
        self.n = 0
        self.depth = 0  # >0 while inside a composite effect (shutil.move, makedirs): inner primitives are not counted

    def under(self, path):
        try:
            p = os.path.realpath(os.fspath(path))
        except TypeError:
            return False
        return p == self.root or p.startswith(self.root + os.sep)

    def step(self, kind, desc, can_partial=False):
        if self.depth:
            return None
        idx = self.n
        self.n += 1
        if self.logfd is not None:
            os.write(self.logfd, (json.dumps({'i': idx, 'kind': kind, 'desc': desc}) + '\n').encode())
        if idx == self.k:
            if self.mode == 'crash':
                os._exit(137)
            if self.mode == 'oserror':
                raise OSError(errno.EIO, 'injected I/O error', desc)
            if self.mode == 'partial':
                if can_partial:
                    return 'partial'
                os._exit(137)
        return None


class FileProxy:
    def __init__(self, real, inj, path):
        self._real, self._inj, self._path = real, inj, path
        self._pending = []
        self.closed = False

    def write(self, data):
        self._inj.step('write', self._path)
        self._pending.append(data)
        return len(data)

    def writelines(self, lines):
        for l in lines:
            self.write(l)

    def flush(self):
        pass

    def close(self):
        if self.closed:
            return
        act = self._inj.step('close', self._path, can_partial=True)
        data = self._pending[0][:0].join(self._pending) if self._pending else None
        if act == 'partial':
            if data:
                self._real.write(data[:max(1, len(data) // 2)])
                self._real.flush()
            os._exit(137)
        if data:
            self._real.write(data)
        self._real.close()
        self.closed = True

    def __enter__(self):
        return self

    def __exit__(self, et, ev, tb):
        if et is None:
            self.close()
        else:  # an exception inside the with-block: Python would still close (and flush) the file
            try:
                self.close()
            except OSError:
                pass
        return False

    def __getattr__(self, name):
        return getattr(self._real, name)


def install(root, k, mode, logfd=None):
    inj = Injector(root, k, mode, logfd)
    real_move, real_makedirs, real_mkdir, real_rename, real_replace = shutil.move, os.makedirs, os.mkdir, os.rename, os.replace

    def p_open(file, mode='r', *a, **kw):
        if isinstance(file, (str, bytes, os.PathLike)) and any(c in mode for c in 'wax+') and inj.under(file):
            path = os.path.relpath(os.path.realpath(os.fspath(file)), inj.root)
            inj.step('open:' + mode, path)
            return FileProxy(_real_open(file, mode, *a, **kw), inj, path)
        return _real_open(file, mode, *a, **kw)

    def composite(kind, real, desc_fn, cond=lambda *a: True):
        def f(*a, **kw):
            if a and inj.under(a[0]) and cond(*a):
                inj.step(kind, desc_fn(*a))
                inj.depth += 1
                try:
                    return real(*a, **kw)
                finally:
                    inj.depth -= 1
            return real(*a, **kw)
        return f

    rel = lambda p: os.path.relpath(os.path.realpath(os.fspath(p)), inj.root)
    builtins.open = p_open
    shutil.move = composite('move', real_move, lambda s, d, *x: f'{rel(s)} -> {rel(d)}')
    os.makedirs = composite('makedirs', real_makedirs, lambda p, *x: rel(p), cond=lambda p, *x: not os.path.isdir(p))
    os.mkdir = composite('mkdir', real_mkdir, lambda p, *x: rel(p))
    os.rename = composite('rename', real_rename, lambda s, d, *x: f'{rel(s)} -> {rel(d)}')
    os.replace = composite('replace', real_replace, lambda s, d, *x: f'{rel(s)} -> {rel(d)}')
    return inj
