"""Observation points on the real code (tally) for classification: engine, cached-engine pipeline, legacy CSV loop."""
from __future__ import annotations

import copy
import os
import shutil
import tempfile

_tmp = None


def tmpdir():
    global _tmp
    if _tmp is None or not os.path.isdir(_tmp):
        _tmp = tempfile.mkdtemp(prefix='tv_', dir=os.environ.get('TV_TMP', '/tmp'))
        import atexit
        atexit.register(lambda: shutil.rmtree(_tmp, ignore_errors=True))
    return _tmp


def cleanup():
    global _tmp
    if _tmp and os.path.isdir(_tmp):
        shutil.rmtree(_tmp, ignore_errors=True)
    _tmp = None


def clear_caches():
    from tally import expr_parser, merchant_utils
    expr_parser._expression_cache.clear()
    expr_parser._regex_cache.clear()
    merchant_utils.clear_engine_cache()


class Crash(Exception):
    def __init__(self, where, exc):
        super().__init__(f'{where} raised {type(exc).__name__}: {exc}')
        self.where = where
        self.exc = exc


def load_engine(text, mode='first_match'):
    from tally.merchant_engine import parse_merchants
    return parse_merchants(text, match_mode=mode)


def engine_classify(engine, txn, rows):
    """apply_transforms + MerchantEngine.match on a private copy of the transaction."""
    from tally.merchant_utils import apply_transforms
    t = copy.deepcopy(txn)
    try:
        apply_transforms(t, engine.transforms)
        r = engine.match(t, data_sources=rows)
    except Exception as e:
        raise Crash('MerchantEngine.match', e)
    return {
        'matched': r.matched,
        'merchant': r.merchant if r.matched else None,
        'category': r.category if r.matched else 'Unknown',
        'subcategory': (r.subcategory if r.matched else 'Unknown'),
        'tags': set(r.tags),
        'extra_fields': dict(r.extra_fields),
        'matching': [x.name for x in r.all_matching_rules],
        'matching_idx': [i for i, x in enumerate(engine.rules) if any(x is y for y in r.all_matching_rules)],
        'winner_idx': next((i for i, x in enumerate(engine.rules) if x is r.matched_rule), None),
        'raw': r,
        'description': t.get('description'),
        'field': None if t.get('field') is None else dict(t['field']),
    }


def write_rules(text, name='merchants.rules'):
    d = tempfile.mkdtemp(prefix='rf_', dir=tmpdir())
    p = os.path.join(d, name)
    with open(p, 'w', encoding='utf-8', newline='') as f:
        f.write(text)
    return p


def pipeline_classify(path, txn, rows, mode='first_match', loaded=None):
    """get_all_rules + get_transforms + normalize_merchant, as parse_generic_csv calls them."""
    from tally.merchant_utils import get_all_rules, get_transforms, normalize_merchant
    try:
        if loaded is None:
            rules = get_all_rules(path, match_mode=mode)
            transforms = get_transforms(path, match_mode=mode)
        else:
            rules, transforms = loaded
        m, c, s, info = normalize_merchant(
            txn['description'], rules, amount=txn['amount'], txn_date=txn.get('date'),
            field=copy.deepcopy(txn.get('field')), data_source=txn.get('source'), transforms=transforms,
            location=txn.get('location'), data_sources=rows)
    except Exception as e:
        raise Crash('normalize_merchant', e)
    return {'merchant': m, 'category': c, 'subcategory': s, 'tags': set((info or {}).get('tags', [])),
            'extra_fields': dict((info or {}).get('extra_fields', {})), 'info': info, 'loaded': (rules, transforms)}


_TRACEBACK = __import__('re').compile(r'^Traceback \(most recent call last\):[ \t]*\r?\n[ \t]+File "', __import__('re').M)


def crashed(text):
    """Does command output contain a Python traceback?  (Not merely the WORD: statement text may say "Traceback" - Hypothesis even feeds
    string constants of the test modules into generated text - so the real multi-line header is required.)"""
    return bool(_TRACEBACK.search(text or ''))
