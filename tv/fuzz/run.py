"""Coverage-guided campaign: libFuzzer (atheris) steers the SAME Hypothesis strategy and oracle as the property's random campaign.

usage: python -m tv.fuzz.run <Cxx> <out.json> [libFuzzer args: -runs=N -seed=S -max_len=L corpus_dir]
exit 0: no violation; exit 77: violation, replay case written to <out.json>; other: harness problem.
"""
import json
import os
import sys

VERIF = os.path.dirname(os.path.dirname(os.path.dirname(os.path.abspath(__file__))))
sys.path.insert(0, os.path.join(VERIF, '.deps'))
sys.path.insert(0, VERIF)
sys.path.insert(0, os.environ.get('TALLY_SRC', '/repo/src'))

TARGETS = {'C03': ('spliced', 'check_fuzz'), 'C04': ('case_st', 'check')}


def main():
    prop, out = sys.argv[1], sys.argv[2]
    import atheris
    with atheris.instrument_imports(include=['tally']):
        import tally.expr_parser, tally.merchant_engine, tally.merchant_utils, tally.section_engine, tally.modifier_parser  # noqa
    import importlib
    from hypothesis import HealthCheck, given, settings
    from tv.harness import Stats, Violation
    mod = importlib.import_module('tv.props.' + prop)
    strat_name, check_name = TARGETS[prop]
    strat = getattr(mod, strat_name)
    strat = strat() if callable(strat) and not hasattr(strat, 'example') else strat
    check = getattr(mod, check_name)
    stats = Stats()

    @settings(database=None, deadline=None, suppress_health_check=list(HealthCheck))
    @given(strat)
    def t(case):
        check(case, stats)

    def target(data):
        try:
            t.hypothesis.fuzz_one_input(data)
        except Violation as v:
            with open(out, 'w') as f:
                json.dump({'message': v.message, 'case': v.case, 'klass': v.klass}, f, default=str)
            sys.stderr.write(f'VIOLATION-FOUND execs~{stats.evaluations}\n')
            sys.stderr.flush()
            os._exit(77)

    atheris.Setup([sys.argv[0]] + sys.argv[3:], target)
    atheris.Fuzz()


if __name__ == '__main__':
    main()
