"""Views (views.rules) filter language: generator, renderer (via tv.lang.render) and reference evaluator over a merchant's payments."""
from __future__ import annotations

import statistics
from datetime import date, datetime

from hypothesis import strategies as st

from tv import lang
from tv.lang import RefErr, ascii_fold

CATS = [('Food', 'Grocery'), ('Food', 'Restaurant'), ('Bills', 'Utilities'), ('Subscriptions', 'Streaming'), ('Shopping', 'Online')]
TAGS = ['recurring', 'Business', 'x', 'refund']
SPECIAL = ['income', 'transfer', 'investment', 'Income', 'TRANSFER']
VAR_NAMES = ['lim', 'big', 'share', 'avgMonthly', 'Thresh', 'is_frequent']
NUMS = [0, 1, 2, 3, 6, 12, 50, 100, 250.5, 1000, -5, 0.3, 0.5]
GROUPS = ['month', 'year', 'week', 'day', 'Month']


class Merchant:
    """What the reference knows about one merchant: its own payments with their real dates."""

    def __init__(self, name, category, subcategory, payments, tags, period, variables=None):
        self.name, self.category, self.subcategory = name, category, subcategory
        self.payments = payments  # [(amount, date)]
        self.tags = {t.lower() for t in tags}
        self.period = period
        self.vars = dict(variables or {})


def _is_nested(v):
    return bool(v) and isinstance(v, list) and isinstance(v[0], list)


def _agg(fn, v):
    try:
        if fn == 'sum':
            return [sum(g) if g else 0 for g in v] if _is_nested(v) else (sum(v) if v else 0)
        if fn == 'count':
            return [len(g) for g in v] if _is_nested(v) else len(v)
        if fn == 'avg':
            return [sum(g) / len(g) if g else 0 for g in v] if _is_nested(v) else (sum(v) / len(v) if v else 0)
        if fn == 'max':
            return [max(g) if g else 0 for g in v] if _is_nested(v) else (max(v) if v else 0)
        if fn == 'min':
            return [min(g) if g else 0 for g in v] if _is_nested(v) else (min(v) if v else 0)
        if fn == 'stddev':
            if _is_nested(v):
                return [statistics.stdev(g) if len(g) >= 2 else 0 for g in v]
            return statistics.stdev(v) if len(v) >= 2 else 0
    except (TypeError, ValueError, statistics.StatisticsError, AttributeError) as e:
        raise RefErr(str(e))
    raise RefErr(fn)


def ref_view_eval(e, m: Merchant):
    k = e[0]
    if k == 'lit':
        return e[1]
    if k in ('num', 'str'):
        return e[1]
    if k in ('name', 'var'):
        n = e[1].lower()
        if n in m.vars:
            return m.vars[n]
        if n == 'payments':
            return [a for a, _ in m.payments]
        if n == 'months':
            return len({d.strftime('%Y-%m') for _, d in m.payments}) or 1
        if n == 'total':
            return sum(a for a, _ in m.payments)
        if n == 'category':
            return m.category
        if n == 'subcategory':
            return m.subcategory
        if n == 'merchant':
            return m.name
        if n == 'tags':
            return set(m.tags)
        if n == 'cv':
            monthly = {}
            for a, d in m.payments:
                monthly[d.strftime('%Y-%m')] = monthly.get(d.strftime('%Y-%m'), 0) + a
            if len(monthly) < 2:
                return 0.0
            vals = list(monthly.values())
            avg = sum(vals) / len(vals)
            if avg == 0:
                return 0.0
            return (sum((x - avg) ** 2 for x in vals) / len(vals)) ** 0.5 / avg
        if n == 'true':
            return True
        if n == 'false':
            return False
        raise RefErr('unknown name ' + e[1])
    if k == 'call':
        fn = e[1].lower()
        args = [ref_view_eval(a, m) for a in e[2]]
        try:
            if fn in ('sum', 'count', 'avg', 'max', 'min', 'stddev') and len(args) == 1:
                if not isinstance(args[0], list):
                    raise RefErr('aggregate of a non-list')
                return _agg(fn, args[0])
            if fn == 'abs' and len(args) == 1:
                return abs(args[0])
            if fn == 'round' and len(args) in (1, 2):
                return round(*args)
            if fn == 'by' and len(args) == 1:
                g = args[0].lower() if isinstance(args[0], str) else None
                fmt = {'month': '%Y-%m', 'year': '%Y', 'day': '%Y-%m-%d', 'week': '%Y-W%W'}.get(g)
                if fmt is None:
                    raise RefErr('unknown grouping')
                groups = {}
                for a, d in m.payments:
                    groups.setdefault(d.strftime(fmt), []).append(a)
                return [groups[key] for key in sorted(groups)]
            if fn == 'period' and len(args) == 1:
                g = args[0].lower() if isinstance(args[0], str) else None
                if g in m.period:
                    return m.period[g]
                raise RefErr('unknown period')
            if fn == 'max_val' and len(args) == 2:
                return max(args)
            if fn == 'min_val' and len(args) == 2:
                return min(args)
        except (TypeError, ValueError) as ex:
            raise RefErr(str(ex))
        raise RefErr('unknown function / arity ' + fn)
    if k == 'cmp':
        left = ref_view_eval(e[1], m)
        for op, x in e[2]:
            right = ref_view_eval(x, m)
            try:
                if op == '==':
                    r = ascii_fold(left) == ascii_fold(right) if isinstance(left, str) and isinstance(right, str) else left == right
                elif op == '!=':
                    r = ascii_fold(left) != ascii_fold(right) if isinstance(left, str) and isinstance(right, str) else left != right
                elif op == '<':
                    r = left < right
                elif op == '<=':
                    r = left <= right
                elif op == '>':
                    r = left > right
                elif op == '>=':
                    r = left >= right
                elif op == 'in':
                    r = (left.lower() in right if isinstance(left, str) else left in right) if isinstance(right, set) else left in right
                elif op == 'not in':
                    r = (left.lower() not in right if isinstance(left, str) else left not in right) if isinstance(right, set) else left not in right
                else:
                    raise RefErr(op)
            except TypeError as ex:
                raise RefErr(str(ex))
            if not r:
                return False
            left = right
        return True
    if k == 'and':
        for x in e[1]:
            if not ref_view_eval(x, m):
                return False
        return True
    if k == 'or':
        for x in e[1]:
            if ref_view_eval(x, m):
                return True
        return False
    if k == 'not':
        return not ref_view_eval(e[1], m)
    if k == 'if':
        return ref_view_eval(e[2], m) if ref_view_eval(e[1], m) else ref_view_eval(e[3], m)
    if k == 'bin':
        a, b = ref_view_eval(e[2], m), ref_view_eval(e[3], m)
        try:
            if e[1] == '+':
                return a + b
            if e[1] == '-':
                return a - b
            if e[1] == '*':
                return a * b
            if e[1] == '/':
                return 0 if b == 0 else a / b
            if e[1] == '%':
                return 0 if b == 0 else a % b
        except (TypeError, OverflowError, ValueError) as ex:
            raise RefErr(str(ex))
    if k == 'neg':
        try:
            return -ref_view_eval(e[1], m)
        except TypeError as ex:
            raise RefErr(str(ex))
    raise RefErr('cannot evaluate ' + k)


# ------------------------------------------------------------------------------------------------
# generators
# ------------------------------------------------------------------------------------------------
def spell(n):
    return st.sampled_from([n, n, n, n.upper(), n.capitalize()])


nested = st.sampled_from(GROUPS).map(lambda g: ['call', 'by', [['str', g]]])
flat_list = st.one_of(
    spell('payments').map(lambda n: ['name', n]),
    st.tuples(st.sampled_from(['sum', 'count', 'avg', 'max', 'min', 'stddev', 'Sum']), nested).map(lambda p: ['call', p[0], [p[1]]]),
)


@st.composite
def vnum(draw, depth=2, varnames=()):
    c = draw(st.integers(0, 13 if depth > 0 else 6))
    if c == 0:
        return ['name', draw(spell('months'))]
    if c == 1:
        return ['name', draw(spell('total'))]
    if c == 2:
        return ['name', 'cv']
    if c <= 4:
        return ['num', draw(st.sampled_from(NUMS))]
    if c == 5:
        return ['call', 'period', [['str', draw(st.sampled_from(['month', 'year', 'Month']))]]]
    if c == 6:
        return ['call', draw(st.sampled_from(['sum', 'count', 'avg', 'max', 'min', 'stddev'])), [draw(flat_list)]]
    if c == 7 and varnames:
        return ['var', draw(st.sampled_from(list(varnames)))]
    n = lambda: vnum(depth - 1, varnames)
    if c <= 9:
        return ['bin', draw(st.sampled_from(['+', '-', '*', '/', '%'])), draw(n()), draw(n())]
    if c == 10:
        return ['call', draw(st.sampled_from(['max_val', 'min_val'])), [draw(n()), draw(n())]]
    if c == 11:
        return ['call', draw(st.sampled_from(['abs', 'round'])), [draw(n())]]
    if c == 12:
        return ['neg', draw(n())]
    return ['call', draw(st.sampled_from(['sum', 'count', 'avg', 'max', 'min', 'stddev'])), [draw(flat_list)]]


@st.composite
def vbool(draw, depth=2, varnames=()):
    c = draw(st.integers(0, 10 if depth > 0 else 5))
    if c <= 1:
        links = draw(st.lists(st.tuples(st.sampled_from(['<', '<=', '>', '>=', '==', '!=']), vnum(max(depth - 1, 0), varnames)).map(list), min_size=1, max_size=2))
        return ['cmp', draw(vnum(max(depth - 1, 0), varnames)), links]
    if c == 2:
        which = draw(st.sampled_from(['category', 'subcategory', 'Category']))
        vals = [x[0] for x in CATS] + [x[1] for x in CATS] + ['food', 'GROCERY']
        return ['cmp', ['name', which], [[draw(st.sampled_from(['==', '!='])), ['str', draw(st.sampled_from(vals))]]]]
    if c == 3:
        return ['cmp', ['str', draw(st.sampled_from(TAGS + ['RECURRING', 'nosuch']))], [[draw(st.sampled_from(['in', 'not in'])), ['name', 'tags']]]]
    if c == 4:
        if draw(st.booleans()):
            # how the payments fall into weeks / days: sensitive to WHICH payments share a group, not only to how many groups there are
            g = ['call', 'by', [['str', draw(st.sampled_from(['week', 'week', 'day', 'Week']))]]]
            return draw(st.sampled_from([['cmp', ['call', 'max', [['call', 'count', [g]]]], [['>=', ['num', 2]]]], ['cmp', ['call', 'count', [g]], [['>=', ['num', draw(st.sampled_from([2, 3, 4]))]]]],
                                         ['cmp', ['call', 'max', [['call', 'sum', [g]]]], [['>', ['num', draw(st.sampled_from(NUMS))]]]]]))
        return ['lit', draw(st.booleans())]
    if c == 5:
        return draw(st.sampled_from(UNEVALUABLE))
    b = lambda: vbool(depth - 1, varnames)
    if c <= 7:
        return [draw(st.sampled_from(['and', 'or'])), draw(st.lists(b(), min_size=2, max_size=3))]
    if c == 8:
        return ['not', draw(b())]
    if c == 9 and varnames:
        return ['cmp', ['var', draw(st.sampled_from(list(varnames)))], [[draw(st.sampled_from(['>', '<='])), draw(vnum(0))]]]
    return ['cmp', draw(vnum(1, varnames)), [[draw(st.sampled_from(['>', '<'])), ['num', draw(st.sampled_from(NUMS))]]]]


UNEVALUABLE = [
    ['cmp', ['name', 'payments'], [['>=', ['num', 12]]]],
    ['cmp', ['call', 'sum', [['name', 'months']]], [['>', ['num', 1]]]],  # (sum(total) is NOT used: tally evaluates sum(0.0) to 0, and sum() of a scalar is undocumented)
    ['cmp', ['name', 'nosuchname'], [['>', ['num', 1]]]],
    ['cmp', ['call', 'sum', [['call', 'by', [['str', 'decade']]]]], [['>', ['num', 1]]]],
    ['cmp', ['bin', '+', ['name', 'months'], ['name', 'category']], [['>', ['num', 3]]]],
    ['cmp', ['call', 'period', [['str', 'week']]], [['>', ['num', 1]]]],
    ['cmp', ['name', 'total'], [['>', ['str', 'x']]]],
]


UNEVALUABLE_NUM = [
    ['call', 'period', [['str', 'week']]],
    ['bin', '*', ['call', 'period', [['str', 'week']]], ['num', 5]],
    ['bin', '+', ['name', 'months'], ['name', 'category']],
    ['name', 'nosuchname'],
    ['call', 'sum', [['name', 'months']]],
]


@st.composite
def views_file(draw):
    gnames = draw(st.lists(st.sampled_from(VAR_NAMES), max_size=2, unique=True))
    globals_ = []
    for i, n in enumerate(gnames):
        globals_.append([n, draw(st.one_of(vnum(1, tuple(gnames[:i])), vbool(1, tuple(gnames[:i]))))])
    views = []
    names = draw(st.lists(st.sampled_from(['Bills', 'Food & Drink', 'Big Stuff', 'Every Month', 'Rare', 'Subs', 'Z', 'All']), min_size=1, max_size=5, unique=True))
    for vn in names:
        lnames = draw(st.lists(st.sampled_from(VAR_NAMES), max_size=2, unique=True))
        lvars = []
        for i, n in enumerate(lnames):
            lvars.append([n, draw(vnum(1, tuple(gnames) + tuple(lnames[:i])))])
        # filters may use ANY name of the pool: an undefined or leaked name must make the view unevaluable / not change its meaning
        usable = tuple(draw(st.sampled_from([tuple(gnames) + tuple(lnames), tuple(VAR_NAMES)])))
        flt = draw(vbool(2, usable))
        if draw(st.integers(0, 3)) == 0:
            # a chain of view-local variables, each built on the previous one; the filter names only the last
            depth = draw(st.integers(3, 4))
            chain = [['step1', draw(vnum(1, tuple(gnames)))]]
            for k in range(2, depth + 1):
                chain.append([f'step{k}', ['bin', draw(st.sampled_from(['+', '-', '*'])), ['var', f'step{k - 1}'], ['num', draw(st.sampled_from(NUMS))]]])
            lvars = lvars + chain
            last = ['cmp', ['var', f'step{depth}'], [[draw(st.sampled_from(['>', '<=', '>='])), ['num', draw(st.sampled_from(NUMS))]]]]
            flt = draw(st.sampled_from([last, ['and', [last, flt]], ['or', [flt, last]]]))
        if lvars and draw(st.integers(0, 4)) == 0:
            # a view-local variable that CANNOT be evaluated for the merchant (period("week") is never supplied, a number plus a text ...): it is
            # None from there on - it neither keeps the value of a global of the same name nor stays undefined - and the filter may tolerate that
            k = draw(st.integers(0, len(lvars) - 1))
            lvars = [list(x) for x in lvars]
            lvars[k][1] = draw(st.sampled_from(UNEVALUABLE_NUM))
            bad = ['var', lvars[k][0]]
            tolerant = draw(st.sampled_from([['cmp', bad, [['==', ['lit', None, 'None']]]], ['not', bad], ['or', [bad, flt]], ['cmp', bad, [['>', ['num', 10]]]], flt]))
            flt = draw(st.sampled_from([tolerant, ['and', [tolerant, flt]], ['or', [flt, tolerant]]]))
        views.append({'name': vn, 'vars': lvars, 'filter': flt})
    if globals_ and draw(st.integers(0, 7)) == 0:
        globals_[draw(st.integers(0, len(globals_) - 1))][1] = draw(st.sampled_from(UNEVALUABLE_NUM))
    return {'globals': globals_, 'views': views}


def render_views(vf):
    lines = ['# generated views']
    for n, e in vf['globals']:
        lines.append(f'{n} = {lang.render(e)}')
    for v in vf['views']:
        lines += ['', f"[{v['name']}]"] + [f'{n} = {lang.render(e)}' for n, e in v['vars']] + [f"filter: {lang.render(v['filter'])}"]
    return '\n'.join(lines) + '\n'


payment = st.tuples(st.one_of(st.integers(-20000, 90000).map(lambda c: c / 100.0), st.sampled_from([50.0, 100.0, 250.5, 1000.0, 9.99, -9.99])),
                    st.integers(0, 17), st.one_of(st.integers(1, 28), st.sampled_from([1, 2, 3, 29, 30, 31]))).map(list)


@st.composite
def merchant_history(draw, idx):
    cat = draw(st.sampled_from(CATS))
    n = draw(st.integers(1, 12))
    months = draw(st.lists(st.integers(0, 17), min_size=1, max_size=6))
    if draw(st.integers(0, 3)) == 0:
        # active in the SAME calendar month of two different years (Nov 2023 and Nov 2024 are two active months)
        k = draw(st.integers(0, 5))
        months = [k, k + 12] + months[:2]
    pays = []
    for _ in range(n):
        pays.append([draw(payment)[0], draw(st.sampled_from(months)), draw(st.one_of(st.integers(1, 28), st.sampled_from([1, 2, 3, 29, 30, 31])))])
    if draw(st.integers(0, 5)) == 0:
        # a flat-rate subscription: one identical payment per month (cv is 0 - whatever the order of the floating-point operations)
        amt = draw(st.sampled_from([15.99, 4.99, 19.99, 9.99, 0.1]))
        pays = [[amt, mo, draw(st.integers(1, 28))] for mo in sorted(set(draw(st.lists(st.integers(0, 17), min_size=2, max_size=12))))]
        n = len(pays)
    if draw(st.integers(0, 5)) == 0:
        # payments in the first days of January AND the last days of December of one year (2024): different weeks, ~51 weeks apart
        pays.append([draw(payment)[0], 4, draw(st.integers(1, 5))])
        pays.append([draw(payment)[0], 15, draw(st.sampled_from([29, 30, 31]))])
    tags = draw(st.lists(st.sampled_from(TAGS), max_size=2))
    special = draw(st.integers(0, 7)) == 0
    # an ordinary tag may come from a tag-only rule that applies to SOME payments only (often not the first): `tags` is the merchant's union
    tag_on = {t: draw(st.lists(st.integers(0, n - 1), min_size=1, max_size=2)) for t in tags if draw(st.booleans())}
    return {'name': f'M{idx}', 'category': cat[0], 'subcategory': cat[1], 'payments': pays, 'tags': tags, 'tag_on': tag_on,
            'special_on': draw(st.lists(st.integers(0, n - 1), min_size=1, max_size=2)) if special else [], 'special_tag': draw(st.sampled_from(SPECIAL))}


def pay_date(mo, day):
    import calendar
    y, m = divmod(mo + 8, 12)
    return datetime(2023 + y, m + 1, min(day, calendar.monthrange(2023 + y, m + 1)[1]))


def build_txns(merchants):
    """Transactions for analyze_transactions, interleaved across merchants in a fixed round-robin order."""
    txns = []
    maxn = max(len(m['payments']) for m in merchants)
    for i in range(maxn):
        for m in merchants:
            if i < len(m['payments']):
                a, mo, day = m['payments'][i]
                tags = [t for t in m['tags'] if t not in m.get('tag_on', {}) or i in m['tag_on'][t]] + ([m['special_tag']] if i in m['special_on'] else [])
                txns.append({'amount': a, 'date': pay_date(mo, day), 'merchant': m['name'], 'category': m['category'], 'subcategory': m['subcategory'],
                             'description': m['name'], 'raw_description': m['name'] + ' RAW', 'source': 'Bank', 'tags': tags})
    return txns
