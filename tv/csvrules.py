"""Legacy merchant_categories.csv rule files: generator, writer and reference semantics (regex search AND modifiers)."""
from __future__ import annotations

import csv
import io
import re
from datetime import date

from hypothesis import strategies as st

from tv import lang

# regex pieces whose meaning does not depend on how the pattern text is later embedded anywhere
PLAIN_ATOMS = ['.*', '.+', '[A-Z]+', '[0-9]{4}', '(?:UBER|LYFT)', '^', '$', '(?!.*EATS)', 'S?', '[ *-]', '.']
ESCAPE_ATOMS = [r'\d+', r'\s+', r'\s*', r'\w+', r'\b', r'\.', r'\*', r'\S', r'#\d{4}', r'\bUBER\b', r'(\w)\1', r'\\', r'\d{5}', r'\$']
QUOTE_ATOMS = ['"', "'", '"AMZN"']
# atoms containing `=` / look-around / named back-references, each with descriptions that tell its regex reading from any other reading of the text
WITNESS = {'UBER(?=.*EATS)': ['UBER EATS', 'UBER =EATS', 'UBER TRIP'], 'A=B': ['A=B', 'A==B', 'A B'], '(?P<a>X)(?P=a)': ['XX', 'XY'], '(?<=SQ )CAFE': ['SQ CAFE', 'CAFE'],
           r'REF=\d{4}': ['REF=1234', 'REF==1234'], 'ID=[0-9]+': ['ID=77', 'ID==77', 'ID 77'], 'K=V=W': ['K=V=W', 'K==V==W']}
PLAIN_ATOMS = PLAIN_ATOMS + [a for a in WITNESS if '\\' not in a]
ESCAPE_ATOMS = ESCAPE_ATOMS + [a for a in WITNESS if '\\' in a]
# plain text that merely resembles the rule language in another letter case (still regexes in a CSV rule file)
LOOKALIKE_ATOMS = ['BED BATH AND BEYOND', 'CRATE AND BARREL', 'PARK OR RIDE', 'Stop And Shop', 'FIELD.TRIP', 'AMOUNT=DUE', 'Source = BANK', 'FUZZY(', 'H AND M', 'DESCRIPTION!']
LOOKALIKE_ATOMS = [a for a in LOOKALIKE_ATOMS if '(' not in a]


def looks_like_expression(pattern: str) -> bool:
    """Patterns that normalize_merchant's heuristic routes to the expression parser (known finding D-csv-heuristic)."""
    return bool(re.match(r'^(contains|normalized|anyof|startswith|fuzzy|regex|extract|split|substring|trim|exists)\s*\(', pattern)) or \
        bool(re.match(r'^(amount|month|year|day|source|description)\s*[<>=!]', pattern)) or pattern.startswith('field.') or \
        ' and ' in pattern or ' or ' in pattern or pattern.startswith('(')


@st.composite
def regex_pat(draw, escapes=True, quotes=False):
    alts = [lang.word.map(re.escape) if escapes else lang.word.filter(lambda w: re.escape(w) == w), st.sampled_from(PLAIN_ATOMS)]
    if escapes:
        alts.append(st.sampled_from(ESCAPE_ATOMS))
    if quotes:
        alts.append(st.sampled_from(QUOTE_ATOMS))
    if draw(st.integers(0, 5)) == 0:
        return draw(st.sampled_from(LOOKALIKE_ATOMS))
    parts = draw(st.lists(st.one_of(alts), min_size=1, max_size=3))
    sep = draw(st.sampled_from(['', '', ' ', r'\s*' if escapes else ' ?', '.*']))
    p = sep.join(parts)
    try:
        re.compile(p)
    except re.error:
        return draw(lang.word.filter(lambda w: re.escape(w) == w))
    return p


AMOUNT_CONSTS = lang.CONSTS + [10000.01, 12345.67, 250000.25, 1234.5, 99.99, 0.01, 1000000, 123456.78]
amount_mod = st.one_of(
    st.tuples(st.sampled_from(['>', '>=', '<', '<=', '=']), st.sampled_from(AMOUNT_CONSTS)).map(lambda t: {'k': 'amount', 'op': t[0], 'v': t[1]}),
    st.tuples(st.sampled_from(AMOUNT_CONSTS), st.sampled_from(AMOUNT_CONSTS)).map(lambda t: {'k': 'amount', 'op': ':', 'lo': min(t), 'hi': max(t)}),
    # a range written larger bound first is accepted by the loader and simply never matches
    st.tuples(st.sampled_from(AMOUNT_CONSTS), st.sampled_from(AMOUNT_CONSTS)).map(lambda t: {'k': 'amount', 'op': ':', 'lo': max(t), 'hi': min(t)}),
)
date_mod = st.one_of(
    st.sampled_from(lang.DATES).map(lambda d: {'k': 'date', 'op': '=', 'd': d}),
    st.tuples(st.sampled_from(lang.DATES), st.sampled_from(lang.DATES)).map(lambda t: {'k': 'date', 'op': ':', 'lo': min(t), 'hi': max(t)}),
    st.tuples(st.sampled_from(lang.DATES), st.sampled_from(lang.DATES)).map(lambda t: {'k': 'date', 'op': ':', 'lo': max(t), 'hi': min(t)}),
    st.integers(1, 12).map(lambda m: {'k': 'month', 'm': m}),
)
relative_mod = st.integers(1, 3000).map(lambda n: {'k': 'date', 'op': 'rel', 'n': n})


def render_mod(m):
    def num(x):
        return repr(x) if isinstance(x, float) else str(x)
    if m['k'] == 'amount':
        if m['op'] == ':':
            return f"[amount:{num(m['lo'])}-{num(m['hi'])}]"
        return f"[amount{m['op']}{num(m['v'])}]"
    if m['k'] == 'month':
        return f"[month={m['m']}]"
    if m['op'] == '=':
        return f"[date={m['d']}]"
    if m['op'] == ':':
        return f"[date:{m['lo']}..{m['hi']}]"
    return f"[date:last{m['n']}days]"


@st.composite
def csv_rule(draw, escapes=True, quotes=False, relative=False, tag_only_p=2):
    pat = draw(regex_pat(escapes, quotes))
    mods = draw(st.lists(st.one_of([amount_mod, date_mod] + ([relative_mod] if relative else [])), max_size=2))
    tag_only = draw(st.integers(0, 9)) < tag_only_p
    tags = draw(st.lists(st.sampled_from(['recurring', 'Food', 'INCOME', 'transfer', 'big-box', 'x y', '#tax', 'schedule #e', '401(k)', 'a,b', 'ride(share', 'fy{24}']), min_size=1 if tag_only else 0, max_size=2))
    # hand-written CSV files often carry a blank after the comma (`NETFLIX, Netflix, Subscriptions`): the cell is then ' Netflix'
    pad = draw(st.sampled_from([('', '')] * 5 + [(' ', ''), (' ', ' '), ('', '  ')]))
    P = lambda x: (pad[0] + x + pad[1]) if x else x
    return {'pattern': pat, 'mods': mods, 'merchant': P(draw(st.sampled_from(['Netflix', 'Uber', 'Big Box', 'Amazon', "O'Neil's", 'A, Inc', 'Store #12', 'C# Shop', 'Amazon [Prime]', 'Toys [R] Us']))),
            'category': '' if tag_only else P(draw(st.sampled_from(['Food', 'Subscriptions', 'Shopping', 'Bills & Utilities', 'Rental #1', 'Rental #2']))),
            'subcategory': P(draw(st.sampled_from(['', 'Streaming', 'Online', 'Rideshare', 'Unit #1', 'Unit #2']))), 'tags': tags}


def csv_file(max_rules=8, **kw):
    return st.lists(csv_rule(**kw), min_size=0, max_size=max_rules)


def render_csv(rules, comments=True):
    buf = io.StringIO()
    w = csv.writer(buf, lineterminator='\n')
    if comments:
        buf.write('# legacy merchant rules\n\n')
    w.writerow(['Pattern', 'Merchant', 'Category', 'Subcategory', 'Tags'])
    for i, r in enumerate(rules):
        if comments and i % 3 == 1:
            buf.write('# a comment, with a comma\n')
        if comments and i % 4 == 2:
            buf.write('\n')
        w.writerow([r['pattern'] + ''.join(render_mod(m) for m in r['mods']), r['merchant'], r['category'], r['subcategory'], '|'.join(r['tags'])])
    return buf.getvalue()


def mod_true(m, amount, d):
    if m['k'] == 'amount':
        if m['op'] == '>':
            return amount > m['v']
        if m['op'] == '>=':
            return amount >= m['v']
        if m['op'] == '<':
            return amount < m['v']
        if m['op'] == '<=':
            return amount <= m['v']
        if m['op'] == '=':
            return abs(amount - m['v']) < 0.01
        return m['lo'] <= amount <= m['hi']
    if d is None:
        return False
    if m['k'] == 'month':
        return d.month == m['m']
    if m['op'] == '=':
        return d == date.fromisoformat(m['d'])
    if m['op'] == ':':
        return date.fromisoformat(m['lo']) <= d <= date.fromisoformat(m['hi'])
    # relative: dates in 2000-2001 are always before any cutoff (N <= 3000 days, run after 2010), dates in 2900 always after
    return d.year >= 2900


def rule_true(r, txn):
    """Documented CSV semantics: case-insensitive regex search on the description AND every modifier."""
    try:
        if re.search(r['pattern'], txn['description'], re.IGNORECASE) is None:
            return False
    except (re.error, OverflowError):
        return False  # a row whose pattern is no regular expression never applies
    return all(mod_true(m, txn['amount'], txn.get('date')) for m in r['mods'])


def ref_classify(rules, txn):
    tags = []
    winner = None
    for i, r in enumerate(rules):
        if rule_true(r, txn):
            tags.extend(t.strip().lower() for t in r['tags'] if t.strip())
            if winner is None and r['category']:
                winner = i
    if winner is None:
        return {'winner': None, 'merchant': None, 'category': 'Unknown', 'subcategory': 'Unknown', 'tags': set(tags)}
    r = rules[winner]
    # names are read without surrounding blanks (like patterns and tags)
    return {'winner': winner, 'merchant': r['merchant'].strip(), 'category': r['category'].strip(), 'subcategory': r['subcategory'].strip(), 'tags': set(tags)}
