"""Operations of the C07 history machine, shared by the in-process history and the fresh-process oracle (tv/drv/forkserver.py)."""
from __future__ import annotations

import copy

from tv import lang


def enc(v):
    """JSON-able, order-stable rendering of a result value."""
    if isinstance(v, (set, frozenset)):
        return {'set': sorted(enc(x) if not isinstance(x, str) else x for x in v)}
    if isinstance(v, dict):
        return {'dict': sorted(([str(k), enc(x)] for k, x in v.items()), key=lambda p: p[0])}
    if isinstance(v, (list, tuple)):
        return [enc(x) for x in v]
    if isinstance(v, (str, int, float, bool)) or v is None:
        return v
    return repr(v)


def new_state():
    return {'rules': [], 'transforms': [], 'loaded': None}


def do_load(state, path, mode, order='rules_first'):
    """A load as the commands perform it: cmd_run/explain/discover call get_transforms BEFORE get_all_rules ('transforms_first')."""
    from tally.merchant_utils import get_all_rules, get_transforms
    state['loaded'] = [path, mode, order]
    try:
        if order == 'transforms_first':
            state['transforms'] = get_transforms(path, match_mode=mode)
            state['rules'] = get_all_rules(path, match_mode=mode)
        else:
            state['rules'] = get_all_rules(path, match_mode=mode)
            state['transforms'] = get_transforms(path, match_mode=mode)
        return {'ok': True, 'n': len(state['rules'])}
    except Exception as e:
        state['rules'], state['transforms'] = [], []
        return {'exc': type(e).__name__, 'msg': str(e)[:200]}


def _snapshot(state):
    import dataclasses
    from tally import merchant_utils
    eng = merchant_utils.get_cached_engine()
    return (copy.deepcopy(state['rules']), copy.deepcopy(state['transforms']),
            None if eng is None else ([dataclasses.asdict(r) for r in eng.rules], dict(eng.variables), list(eng.transforms)))


def do_op(state, op, frame=False):
    """Perform one operation.  With frame=True also checks that the operation altered neither the loaded rule set, nor the
    supplemental rows, nor any field of the transaction other than those the file's own transforms assign."""
    if not frame:
        return _do_op(state, op)
    before = _snapshot(state)
    res = _do_op(state, op, check_inputs=True)
    after = _snapshot(state)
    if before != after:
        res['frame_violation'] = 'the loaded rule set changed during ' + op['k']
    return res


def _inputs_changed(t0, t1, rows0, rows1, transforms):
    assigned = {'description'} | {p[6:] for p, _ in transforms if p.startswith('field.')}
    for key in set(t0) | set(t1):
        if key.startswith('_raw_') or key == 'description':
            continue
        if key == 'field':
            f0, f1 = t0.get('field') or {}, t1.get('field') or {}
            for fk in set(f0) | set(f1):
                if fk not in assigned and f0.get(fk) != f1.get(fk):
                    return f'field.{fk} changed from {f0.get(fk)!r} to {f1.get(fk)!r}'
            continue
        if t0.get(key) != t1.get(key):
            return f'{key} changed from {t0.get(key)!r} to {t1.get(key)!r}'
    if 'description' not in assigned and t0.get('description') != t1.get('description'):
        return 'description changed'
    if rows0 != rows1:
        return 'supplemental rows changed'
    return None


def parse_text_op(engine, text, tc, rows):
    from tally import expr_parser as ep
    from tally.merchant_engine import MerchantParseError
    from tally.merchant_utils import apply_transforms
    try:
        engine.parse(text)
    except MerchantParseError:
        return {'parse_error': True}
    except Exception as e:
        return {'exc': type(e).__name__, 'msg': str(e)[:200]}
    try:
        t = lang.mk_txn(tc)
        apply_transforms(t, engine.transforms)
        r = engine.match(t, data_sources=lang.mk_rows(rows))
        return {'mcs': [r.merchant, r.category, r.subcategory], 'matched': r.matched, 'tags': sorted(r.tags), 'extra': enc(r.extra_fields),
                'matching': [x.name for x in r.all_matching_rules], 'vars': sorted(engine.variables), 'ntransforms': len(engine.transforms)}
    except Exception as e:
        return {'exc': type(e).__name__, 'msg': str(e)[:200]}


def _do_op(state, op, check_inputs=False):
    from tally import expr_parser as ep
    k = op['k']
    if k == 'parse_text':
        from tally.merchant_engine import MerchantEngine
        return parse_text_op(MerchantEngine(), op['text'], op['txn'], op['rows'])
    try:
        if k == 'classify':
            from tally.merchant_utils import normalize_merchant
            t = lang.mk_txn(op['txn'])
            rows = lang.mk_rows(op['rows'])
            t0, rows0 = copy.deepcopy(t), copy.deepcopy(rows)
            m, c, s, info = normalize_merchant(t['description'], state['rules'], amount=t['amount'], txn_date=t.get('date'), field=t.get('field'),
                                               data_source=t.get('source'), transforms=state['transforms'], location=t.get('location'), data_sources=rows)
            res = {'mcs': [m, c, s], 'tags': sorted((info or {}).get('tags', [])), 'extra': enc((info or {}).get('extra_fields', {})),
                   'pattern': (info or {}).get('pattern')}
            if check_inputs:
                ch = _inputs_changed(t0, t, rows0, rows, state['transforms'])
                if ch:
                    res['frame_violation'] = 'classify: ' + ch
            return res
        if k == 'engine':
            from tally.merchant_engine import load_merchants_file
            from tally.merchant_utils import apply_transforms
            from pathlib import Path
            eng = load_merchants_file(Path(op['path']), match_mode=op['mode'])
            t = lang.mk_txn(op['txn'])
            rows = lang.mk_rows(op['rows'])
            apply_transforms(t, eng.transforms)
            t0, rows0 = copy.deepcopy(t), copy.deepcopy(rows)
            import dataclasses
            rules0 = [dataclasses.asdict(x) for x in eng.rules]
            r = eng.match(t, data_sources=rows)
            res = {'mcs': [r.merchant, r.category, r.subcategory], 'matched': r.matched, 'tags': sorted(r.tags), 'extra': enc(r.extra_fields),
                   'matching': [x.name for x in r.all_matching_rules]}
            if check_inputs:
                if t != t0 or rows != rows0:
                    res['frame_violation'] = 'MerchantEngine.match changed the transaction or the supplemental rows'
                if [dataclasses.asdict(x) for x in eng.rules] != rules0:
                    res['frame_violation'] = 'MerchantEngine.match changed the rule set'
                if t.get('date') is not None:
                    # the statement parsers carry datetimes: a caller handing the engine such a dict gets it back as it was
                    from datetime import datetime, time as _time
                    t_dt = dict(copy.deepcopy(t0), date=datetime.combine(t0['date'], _time.min))
                    snap = copy.deepcopy(t_dt)
                    try:
                        eng.match(t_dt, data_sources=rows)
                    except Exception:
                        pass
                    if repr(t_dt) != repr(snap):
                        res['frame_violation'] = f'MerchantEngine.match changed the transaction it was given: {snap!r} -> {t_dt!r}'
            return res
        if k == 'eval':
            t, rows = lang.mk_txn(op['txn']), lang.mk_rows(op['rows'])
            vs = dict(op['vars']) if op.get('vars') is not None else None
            t0, rows0, vs0 = copy.deepcopy(t), copy.deepcopy(rows), copy.deepcopy(vs)
            v = ep.evaluate_transaction(op['src'], t, vs, rows)
            res = {'val': enc(v), 'type': type(v).__name__}
            if check_inputs and (t != t0 or rows != rows0 or vs != vs0):
                res['frame_violation'] = 'evaluate_transaction changed its inputs'
            return res
        if k == 'view':
            from datetime import datetime
            txns = [{'amount': a, 'date': datetime(2024, 1 + (mo % 12), 1 + (d % 28)), 'category': op['category'], 'subcategory': 'S', 'merchant': 'M', 'tags': list(op['tags'])}
                    for a, mo, d in op['payments']]
            return {'val': bool(ep.evaluate_filter(op['src'], txns, 12, dict(op.get('vars') or {}), {'month': 12, 'year': 1}))}
        if k == 'parse_csv':
            from tally.format_parser import parse_format_string
            from tally.parsers import parse_generic_csv
            spec = parse_format_string(op['fmt'])
            out = parse_generic_csv(op['data'], spec, state['rules'], source_name=op['source'], transforms=state['transforms'], data_sources=lang.mk_rows(op['rows']))
            return {'txns': [[t['merchant'], t['category'], t['subcategory'], sorted(t['tags']), t['amount'], t['raw_description']] for t in out]}
    except ep.ExpressionError as e:
        return {'experr': True}
    except Exception as e:
        return {'exc': type(e).__name__, 'msg': str(e)[:200]}
    raise ValueError(k)
