"""Expression IR for tally's rule language: Hypothesis generators, renderer, and an independent reference interpreter.

IR nodes are JSON-able lists.  One IR value renders to tally syntax (render) and is evaluated by the reference (ref_eval),
which is written from the language reference (`tally reference`, docs) and the property statements - it never calls tally.

Types used by the typed generator: B(ool) N(um) S(tr) D(ate) L(ist of rows / values).
"""
from __future__ import annotations

import json
import re
from datetime import date

from hypothesis import strategies as st

# ------------------------------------------------------------------------------------------------
# vocabulary
# ------------------------------------------------------------------------------------------------
WORDS = ['NETFLIX', 'UBER', 'EATS', 'AMZN', 'MKTP', 'STAR', 'BUCKS', 'HOLIDAY', 'INN', 'TGI', 'FRIDAYS', 'SQ', 'APLPAY',
         'TST', 'COSTCO', 'WHOLE', 'FOODS', 'PAYDAY', 'LOAN', 'SOURCE', 'AMOUNT', 'DUE', 'COM', 'WA', 'CA', 'NY',
         '#1234', '98101', 'DES:', 'ID:42', "O'NEIL", '.COM', 'REF:12345', 'PROJ:alpha', 'ACH', 'OUT', 'WIRE', '401K',
         'Coffee', 'shop', '日本', '☕']
SEPS = [' ', ' ', ' ', '  ', '*', '-', '', ' - ']
CONSTS = [0, 5, 9.99, 10, 50, 100, 100.5, 200, 500, 1000]
DATES = ['2023-12-31', '2024-01-01', '2024-01-31', '2024-02-29', '2024-03-01', '2024-06-15', '2024-12-31', '2025-01-01',
         '2025-07-04', '2025-11-30']
FIELD_KEYS = ['memo', 'type', 'code', 'vendor']
FIELD_VALUES = ['', '  ', 'ACH-OUT-123', 'WIRE', 'Invoice REF:77', 'PROJ:alpha', 'memo text', ' padded ', 'COST-CO']
SOURCES = ['Amex', 'Chase', 'alice-amex', 'BANK']
LOCATIONS = ['Seattle, WA', 'CA', 'NY']
CASE_VARIANTS_S = [v.lower() for v in SOURCES] + [v.upper() for v in SOURCES if v.upper() != v]
CASE_VARIANTS_F = sorted({f(v) for v in FIELD_VALUES for f in (str.lower, str.swapcase) if v.strip() and f(v) != v})
ROW_ITEMS = ['Book', 'USB Cable', 'coffee beans', 'Gift Card', '', ' ']


def ascii_fold(s: str) -> str:
    return ''.join(chr(ord(c) + 32) if 'A' <= c <= 'Z' else c for c in s)


def flip_case(s: str, mask: int) -> str:
    out = []
    for i, c in enumerate(s):
        if c.isascii() and c.isalpha() and (mask >> (i % 16)) & 1:
            out.append(c.swapcase())
        else:
            out.append(c)
    return ''.join(out)


# ------------------------------------------------------------------------------------------------
# transactions and supplemental rows (JSON-able cases)
# ------------------------------------------------------------------------------------------------
word = st.sampled_from(WORDS)
@st.composite
def _descr(draw):
    ws = draw(st.lists(word, min_size=1, max_size=5))
    out = ws[0]
    for w in ws[1:]:
        out += draw(st.sampled_from(SEPS)) + w
    pad = draw(st.sampled_from([('', ''), ('', ''), ('', ''), (' ', ''), ('', '  ')]))
    mask = draw(st.one_of(st.just(0), st.just(0), st.integers(0, 65535)))
    return flip_case(pad[0] + out + pad[1], mask)


descr = _descr()
amount = st.one_of(
    st.tuples(st.sampled_from(CONSTS), st.sampled_from([-0.01, -0.005, 0, 0, 0.005, 0.01]), st.sampled_from([1, 1, -1])).map(
        lambda t: round((t[0] + t[1]) * t[2], 4)),
    st.integers(-300000, 300000).map(lambda c: c / 100.0),
)
iso_date = st.one_of(st.sampled_from(DATES),
                     st.dates(min_value=date(2023, 1, 1), max_value=date(2026, 12, 31)).map(lambda d: d.isoformat()))
field_dict = st.one_of(
    st.none(),
    st.fixed_dictionaries({}, optional={k: st.one_of(st.sampled_from(FIELD_VALUES), descr) for k in FIELD_KEYS}),
    st.fixed_dictionaries({k: st.one_of(st.sampled_from(FIELD_VALUES), descr) for k in FIELD_KEYS}),
    st.fixed_dictionaries({k: st.one_of(st.sampled_from(FIELD_VALUES), descr) for k in FIELD_KEYS}),
)
txn_case = st.fixed_dictionaries({
    'description': descr,
    'amount': amount,
    'date': st.one_of(iso_date, iso_date, iso_date, iso_date, st.none()),
    'field': field_dict,
    'source': st.one_of(st.sampled_from(SOURCES), st.sampled_from(SOURCES), st.none()),
    'location': st.one_of(st.none(), st.sampled_from(LOCATIONS)),
})
row_case = st.fixed_dictionaries({'item': st.sampled_from(ROW_ITEMS), 'amount': amount, 'date': iso_date,
                                  'qty': st.integers(0, 3)})
rows_case = st.fixed_dictionaries({'orders': st.lists(row_case, max_size=4), 'receipts': st.lists(row_case, max_size=3)})
# a budget without supplemental sources hands the evaluators None or {} (the common case in real use)
def _ragged(rc):
    # a row that came from a short CSV line lacks its last columns
    out = {k: [dict(r) for r in v] for k, v in rc.items()}
    for v in out.values():
        if len(v) >= 2:
            v[-1].pop('qty', None)
            v[-1].pop('date', None)
    return out


rows_opt = st.one_of(st.none(), st.just({}), rows_case, rows_case, rows_case.map(_ragged))


def mk_txn(c):
    """JSON case -> the dict tally's evaluators receive."""
    t = {'description': c['description'], 'amount': c['amount'], 'field': None if c.get('field') is None else dict(c['field']),
         'source': c.get('source'), 'location': c.get('location')}
    if c.get('date'):
        t['date'] = date.fromisoformat(c['date'])
    return t


def mk_rows(rc):
    if rc is None:
        return None
    def d(x):
        try:
            return date.fromisoformat(x)
        except ValueError:
            return x  # a date cell the loader could not parse stays text (config_loader keeps the raw value)
    return {k: [dict(r, date=d(r['date'])) if 'date' in r else dict(r) for r in v] for k, v in rc.items()}


# ------------------------------------------------------------------------------------------------
# rendering
# ------------------------------------------------------------------------------------------------
def lit(s: str) -> str:
    """A Python/tally string literal denoting exactly `s` (JSON escapes are valid Python escapes)."""
    return json.dumps(s, ensure_ascii=False)


def num_lit(x) -> str:
    if isinstance(x, bool):
        return 'True' if x else 'False'
    if isinstance(x, int):
        return str(x) if x >= 0 else f'(-{-x})'
    r = repr(float(x))
    return r if x >= 0 else f'(-{r[1:]})'


ATOMIC = {'lit', 'var', 'num', 'str', 'name', 'txn', 'field', 'fieldb', 'match', 'anyof', 'fuzzy', 'exists', 'call', 'len',
          'sumgen', 'anygen', 'allgen', 'nextgen', 'minl', 'maxl', 'min2', 'max2', 'attr', 'listcomp', 'meth', 'sub', 'raw', 'gen'}


def render(e) -> str:
    k = e[0]

    def p(x):
        s = render(x)
        return s if x[0] in ATOMIC else f'({s})'

    if k == 'lit':
        return e[2] if len(e) > 2 else ('True' if e[1] else 'False')
    if k == 'raw':
        return e[1]
    if k in ('var', 'name'):
        return e[1]
    if k == 'num':
        return num_lit(e[1])
    if k == 'str':
        return lit(e[1])
    if k == 'txn':
        return f'{e[2] if len(e) > 2 else "txn"}.{e[1]}'
    if k in ('field', 'fieldb'):
        return f'{e[2] if len(e) > 2 else "field"}.{e[1]}'
    if k == 'match':
        fn, text, pat = e[1], e[2], e[3]
        return f'{fn}({render(text)}, {lit(pat)})' if text is not None else f'{fn}({lit(pat)})'
    if k == 'anyof':
        return f'{e[2] if len(e) > 2 else "anyof"}(' + ', '.join(lit(x) for x in e[1]) + ')'
    if k == 'fuzzy':
        args = ([render(e[1])] if e[1] is not None else []) + [lit(e[2])] + ([num_lit(e[3])] if e[3] is not None else [])
        return 'fuzzy(' + ', '.join(args) + ')'
    if k == 'cmp':
        return p(e[1]) + ''.join(f' {op} {p(x)}' for op, x in e[2])
    if k in ('and', 'or'):
        return f' {k} '.join(p(x) for x in e[1])
    if k == 'not':
        return f'not {p(e[1])}'
    if k == 'exists':
        return f'exists({render(e[1])})'
    if k == 'if':
        return f'{p(e[2])} if {p(e[1])} else {p(e[3])}'
    if k == 'bin':
        return f'{p(e[2])} {e[1]} {p(e[3])}'
    if k == 'neg':
        return f'-{p(e[1])}'
    if k == 'call':
        return f'{e[1]}(' + ', '.join(render(a) for a in e[2]) + ')'
    if k == 'meth':
        return f'{p(e[1])}.{e[2]}(' + ', '.join(render(a) for a in e[3]) + ')'
    if k == 'len':
        return f'len({render(e[1])})'
    if k in ('minl', 'maxl'):
        return f'{k[:3]}({render(e[1])})'
    if k in ('min2', 'max2'):
        return f'{k[:3]}({render(e[1])}, {render(e[2])})'
    if k in ('sumgen', 'anygen', 'allgen'):
        fn = {'sumgen': 'sum', 'anygen': 'any', 'allgen': 'all'}[k]
        return f'{fn}({_gen(e)})'
    if k == 'nextgen':
        d = f', {render(e[5])}' if e[5] is not None else ''
        return f'next(({_gen(e)}){d})'
    if k == 'listcomp':
        return f'[{_gen(e)}]'
    if k == 'gen':
        return f'({_gen(e)})'
    if k == 'attr':
        return f'{render(e[1]) if isinstance(e[1], list) else e[1]}.{e[2]}'
    if k == 'sub':
        return f'{p(e[1])}[{render(e[2])}]'
    if k == 'concat':
        return f'{p(e[1])} + {p(e[2])}'
    if k == 'walrus':
        return f'({e[1]} := {render(e[2])})'
    raise ValueError(f'render: {e!r}')


def _gen(e):
    elt, var, src, cond = e[1], e[2], e[3], e[4]
    s = f'{render(elt)} for {var} in {render(src)}'
    if cond is not None:
        c = render(cond)
        s += f' if ({c})' if cond[0] == 'if' else f' if {c}'
    return s


# ------------------------------------------------------------------------------------------------
# reference interpreter
# ------------------------------------------------------------------------------------------------
class RefErr(Exception):
    """The expression cannot be evaluated for this item (an 'expression error')."""


class Unspecified(Exception):
    """The documentation does not say what this means (e.g. month of a missing date); nothing is asserted."""


class Env:
    def __init__(self, txn, variables=None, rows=None):
        self.t = txn
        self.vars = dict(variables or {})
        self.rows = rows or {}
        self.scope = {}


def _cmp_one(op, a, b):
    if isinstance(a, date) and isinstance(b, str):
        b = _iso(b)
    elif isinstance(a, str) and isinstance(b, date):
        a = _iso(a)
    try:
        if op == '==':
            return ascii_fold(a) == ascii_fold(b) if isinstance(a, str) and isinstance(b, str) else a == b
        if op == '!=':
            return ascii_fold(a) != ascii_fold(b) if isinstance(a, str) and isinstance(b, str) else a != b
        if op == '<':
            return a < b
        if op == '<=':
            return a <= b
        if op == '>':
            return a > b
        if op == '>=':
            return a >= b
        if op in ('in', 'not in'):
            if isinstance(a, str) and isinstance(b, str):
                r = ascii_fold(a) in ascii_fold(b)
            else:
                r = a in b
                if isinstance(a, str) and isinstance(b, (list, tuple)) and r != (ascii_fold(a) in [ascii_fold(x) for x in b if isinstance(x, str)]):
                    raise Unspecified('letter case in list membership')
            return r if op == 'in' else not r
    except TypeError as ex:
        raise RefErr(str(ex))
    raise RefErr(op)


def _iso(s):
    try:
        return date.fromisoformat(s)
    except ValueError:
        raise RefErr('bad date ' + s)


def _text(env, e):
    return env.t['description'] if e is None else ref_eval(e, env)


def _need_str(*xs):
    for x in xs:
        if not isinstance(x, str):
            raise RefErr(f'expected text, got {type(x).__name__}')


def _normalize(s):
    return re.sub(r"[\s\-'.*]+", '', ascii_fold(s))


def ref_eval(e, env: Env):
    k = e[0]
    t = env.t
    if k == 'lit':
        return e[1]
    if k in ('num', 'str'):
        return e[1]
    if k in ('var', 'name'):
        n = e[1].lower()
        if n in env.scope:
            return env.scope[n]
        if n in env.vars:
            return env.vars[n]
        if n == 'description':
            return t['description']
        if n == 'amount':
            return t['amount']
        if n == 'date':
            return t.get('date')
        if n in ('month', 'year', 'day', 'weekday'):
            d = t.get('date')
            if d is None:
                raise Unspecified(n + ' of a missing date')
            return {'month': d.month, 'year': d.year, 'day': d.day, 'weekday': d.weekday()}[n]
        if n == 'source':
            return t.get('source') or ''
        if n == 'true':
            return True
        if n == 'false':
            return False
        if n in env.rows:
            return env.rows[n]
        raise RefErr('unknown name ' + e[1])
    if k == 'txn':
        n = e[1].lower()
        if n in ('description', 'amount'):
            return t[n]
        if n == 'date':
            return t.get('date')
        if n in ('source', 'location'):
            return t.get(n) or ''
        if n in ('month', 'year', 'day', 'weekday'):
            return ref_eval(['name', n], Env(t))
        raise RefErr('unknown txn attribute')
    if k in ('field', 'fieldb'):
        n = e[1].lower()
        if n in ('description', 'amount'):
            return t[n]
        if n == 'date':
            return t.get('date')
        if n in ('source', 'location'):
            return t.get(n) or ''
        f = t.get('field')
        if f is not None and n in f:
            return f[n]
        raise RefErr('unknown field ' + n)
    if k == 'match':
        fn, pat = e[1].lower(), e[3]
        text = _text(env, e[2])
        _need_str(text, pat)
        if fn == 'contains':
            return ascii_fold(pat) in ascii_fold(text)
        if fn == 'startswith':
            return ascii_fold(text).startswith(ascii_fold(pat))
        if fn == 'normalized':
            return _normalize(pat) in _normalize(text)
        if fn == 'regex':
            try:
                return re.search(pat, text, re.IGNORECASE) is not None
            except re.error as ex:
                raise RefErr(str(ex))
        raise RefErr(fn)
    if k == 'anyof':
        d = t['description']
        _need_str(d, *e[1])
        return any(ascii_fold(x) in ascii_fold(d) for x in e[1])
    if k == 'fuzzy':
        raise Unspecified('fuzzy is checked by laws only')
    if k == 'cmp':
        left = ref_eval(e[1], env)
        for op, x in e[2]:
            right = ref_eval(x, env)
            if not _cmp_one(op, left, right):
                return False
            # the documented meaning: a chain is the conjunction of its links
            left = right
        return True
    if k == 'and':
        for x in e[1]:
            if not ref_eval(x, env):
                return False
        return True
    if k == 'or':
        for x in e[1]:
            if ref_eval(x, env):
                return True
        return False
    if k == 'not':
        return not ref_eval(e[1], env)
    if k == 'exists':
        try:
            v = ref_eval(e[1], env)
        except RefErr:
            return False
        return bool(v and str(v).strip())
    if k == 'if':
        return ref_eval(e[2], env) if ref_eval(e[1], env) else ref_eval(e[3], env)
    if k == 'bin':
        a, b = ref_eval(e[2], env), ref_eval(e[3], env)
        op = e[1]
        try:
            if op == '+':
                return a + b
            if op == '-':
                return a - b
            if op == '*':
                return a * b
            if op == '/':
                return 0 if b == 0 else a / b
            if op == '%':
                return 0 if b == 0 else a % b
        except (TypeError, OverflowError) as ex:
            raise RefErr(str(ex))
        raise RefErr(op)
    if k == 'concat':
        a, b = ref_eval(e[1], env), ref_eval(e[2], env)
        try:
            return a + b
        except TypeError as ex:
            raise RefErr(str(ex))
    if k == 'neg':
        try:
            return -ref_eval(e[1], env)
        except TypeError as ex:
            raise RefErr(str(ex))
    if k == 'call':
        fn = e[1].lower()
        args = [ref_eval(a, env) for a in e[2]]
        return _call(fn, args, env)
    if k == 'meth':
        o = ref_eval(e[1], env)
        args = [ref_eval(a, env) for a in e[3]]
        m = e[2].lower()
        if not isinstance(o, str):
            raise RefErr('method on non-text')
        try:
            if m == 'lower' and not args:
                return o.lower()
            if m == 'upper' and not args:
                return o.upper()
            if m == 'strip' and not args:
                return o.strip()
            if m == 'startswith' and len(args) == 1:
                return o.startswith(args[0])
            if m == 'endswith' and len(args) == 1:
                return o.endswith(args[0])
            if m == 'replace' and len(args) == 2:
                return o.replace(args[0], args[1])
        except TypeError as ex:
            raise RefErr(str(ex))
        raise RefErr('method ' + m)
    if k == 'len':
        v = ref_eval(e[1], env)
        try:
            return len(v)
        except TypeError as ex:
            raise RefErr(str(ex))
    if k in ('minl', 'maxl'):
        v = ref_eval(e[1], env)
        try:
            return (min if k == 'minl' else max)(v)
        except (TypeError, ValueError) as ex:
            raise RefErr(str(ex))
    if k in ('min2', 'max2'):
        a, b = ref_eval(e[1], env), ref_eval(e[2], env)
        try:
            return (min if k == 'min2' else max)(a, b)
        except TypeError as ex:
            raise RefErr(str(ex))
    if k == 'listcomp':
        return list(_iter(e, env))
    if k == 'gen':
        raise Unspecified('value of a bare generator expression')
    if k == 'sumgen':
        try:
            return sum(_iter(e, env))
        except TypeError as ex:
            raise RefErr(str(ex))
    if k == 'anygen':
        return any(_iter(e, env))
    if k == 'allgen':
        return all(_iter(e, env))
    if k == 'nextgen':
        for v in _iter(e, env):
            return v
        if e[5] is not None:
            return ref_eval(e[5], env)
        raise RefErr('next() on an exhausted generator')
    if k == 'attr':
        o = ref_eval(e[1], env) if isinstance(e[1], list) else ref_eval(['name', e[1]], env)
        if isinstance(o, dict) and e[2].lower() in o:
            return o[e[2].lower()]
        raise RefErr('attribute ' + e[2])
    if k == 'sub':
        o, i = ref_eval(e[1], env), ref_eval(e[2], env)
        try:
            return o[i]
        except (IndexError, KeyError, TypeError) as ex:
            raise RefErr(str(ex))
    if k == 'walrus':
        v = ref_eval(e[2], env)
        env.scope[e[1].lower()] = v
        return v
    raise RefErr(f'cannot evaluate {k}')


def _iter(e, env):
    elt, var, src, cond = e[1], e[2].lower(), e[3], e[4]
    seq = ref_eval(src, env)
    try:
        it = iter(seq)
    except TypeError as ex:
        raise RefErr(str(ex))
    for item in it:
        had = var in env.scope
        old = env.scope.get(var)
        env.scope[var] = item
        try:
            if cond is None or ref_eval(cond, env):
                yield ref_eval(elt, env)
        finally:
            if had:
                env.scope[var] = old
            else:
                env.scope.pop(var, None)


def _call(fn, a, env):
    d = env.t['description']
    try:
        if fn == 'abs' and len(a) == 1:
            return abs(a[0])
        if fn == 'round' and len(a) in (1, 2):
            return round(*a)
        if fn == 'extract' and len(a) in (1, 2):
            text, pat = (d, a[0]) if len(a) == 1 else a
            _need_str(text, pat)
            try:
                m = re.search(pat, text, re.IGNORECASE)
            except re.error as ex:
                raise RefErr(str(ex))
            return m.group(1) if m and m.groups() else ''
        if fn == 'split' and len(a) in (2, 3):
            text, delim, idx = (d, a[0], a[1]) if len(a) == 2 else a
            _need_str(text, delim)
            if not isinstance(idx, int) or delim == '':
                raise RefErr('split')
            parts = text.split(delim)
            return parts[idx].strip() if 0 <= idx < len(parts) else ''
        if fn == 'substring' and len(a) in (2, 3):
            text, s, t = (d, a[0], a[1]) if len(a) == 2 else a
            _need_str(text)
            if not isinstance(s, int) or not isinstance(t, int):
                raise RefErr('substring')
            return text[s:t]
        if fn == 'trim' and len(a) in (0, 1):
            return d.strip() if not a else str(a[0]).strip()
        if fn == 'regex_replace' and len(a) == 3:
            try:
                return re.sub(str(a[1]), str(a[2]), str(a[0]), flags=re.IGNORECASE)
            except (re.error, IndexError) as ex:
                raise RefErr(str(ex))
        if fn == 'uppercase' and len(a) == 1:
            return str(a[0]).upper()
        if fn == 'lowercase' and len(a) == 1:
            return str(a[0]).lower()
        if fn == 'strip_prefix' and len(a) == 2:
            text, pre = str(a[0]), str(a[1])
            return text[len(pre):] if ascii_fold(text).startswith(ascii_fold(pre)) else text
        if fn == 'strip_suffix' and len(a) == 2:
            text, suf = str(a[0]), str(a[1])
            return text[:len(text) - len(suf)] if ascii_fold(text).endswith(ascii_fold(suf)) else text
    except TypeError as ex:
        raise RefErr(str(ex))
    raise RefErr('unknown function or arity: ' + fn)


# ------------------------------------------------------------------------------------------------
# typed generators
# ------------------------------------------------------------------------------------------------
def spell(name):
    """function / primitive name, occasionally in another letter case (names are case-insensitive)."""
    return st.sampled_from([name, name, name, name, name.upper(), name.capitalize()])


pattern_text = st.one_of(
    word,
    st.tuples(word, st.sampled_from([' ', ' ', '*', '-', '']), word).map(''.join),
    st.tuples(word, st.integers(0, 65535)).map(lambda p: flip_case(*p)),
    st.sampled_from(['', ' ', '.', '*', "'", 'UBER EATS', 'WHOLEFOODS', 'AMZN MKTP', 'holiday inn', 'ACH', 'REF', '#', 'x']),
)

REGEX_ATOMS = [r'\d+', r'\s+', r'\s*', r'\w+', '.*', r'\b', '^', '$', r'(?!.*EATS)', r'(?:UBER|LYFT)', '[A-Z]+', r'#\d{4}', r'\.',
               r'\*', '(STAR|MOON)', r'\S', '[0-9]{5}', '(?i:com)', r'REF:(\d+)', r'PROJ:(\w+)', r'(\w+)-(\w+)']
regex_pattern = st.lists(st.one_of(word.map(re.escape), st.sampled_from(REGEX_ATOMS)), min_size=1, max_size=3).map(''.join)
regex_capture = st.sampled_from([r'REF:(\d+)', r'PROJ:(\w+)', r'(\w+)-(\w+)', r'#(\d+)', r'^(\S+)', r'(\d+)', r'(UBER|AMZN)\s*(\w+)?',
                                 r'NOGROUP', r'ID:(\d+)', r'([A-Z]+)\s*$'])


def str_atoms(fields=True, loopvar=None):
    alts = [
        spell('description').map(lambda n: ['name', n]),
        spell('source').map(lambda n: ['name', n]),
        st.sampled_from(['description', 'source', 'location']).map(lambda n: ['txn', n]),
        st.sampled_from(['description', 'source', 'location']).map(lambda n: ['fieldb', n]),
        pattern_text.map(lambda s: ['str', s]),
        st.sampled_from(FIELD_VALUES + ['WIRE', 'Amex', 'chase']).map(lambda s: ['str', s]),
        st.sampled_from(DATES).map(lambda s: ['str', s]),  # text that merely LOOKS like a date is text when compared with text
        st.sampled_from(['label', 'Label', 'LABEL']).map(lambda n: ['var', n]),
    ]
    if fields:
        alts.append(st.tuples(st.sampled_from(FIELD_KEYS), st.sampled_from(['field', 'field', 'Field', 'FIELD'])).map(
            lambda p: ['field', p[0], p[1]]))
        alts.append(st.sampled_from(FIELD_KEYS).map(lambda k: ['field', k.upper()]))
    if loopvar:
        alts.append(st.just(['attr', loopvar, 'item']))
    return st.one_of(alts)


def num_atoms(loopvar=None):
    alts = [
        spell('amount').map(lambda n: ['name', n]),
        st.just(['txn', 'amount']), st.just(['fieldb', 'amount']),
        st.sampled_from(CONSTS).map(lambda c: ['num', c]),
        st.sampled_from([0, 1, 2, 3, 12, -1, 0.5, 2024, 7]).map(lambda c: ['num', c]),
        st.sampled_from(['month', 'year', 'day', 'weekday']).map(lambda n: ['name', n]),
        st.sampled_from(['month', 'year', 'day', 'weekday']).map(lambda n: ['txn', n]),
        st.sampled_from(['threshold', 'Threshold']).map(lambda n: ['var', n]),
    ]
    if loopvar:
        alts.append(st.just(['attr', loopvar, 'amount']))
        alts.append(st.just(['attr', loopvar, 'qty']))
    return st.one_of(alts)


@st.composite
def str_expr(draw, depth=2, loopvar=None, fields=True):
    if depth <= 0 or draw(st.integers(0, 9)) < 4:
        return draw(str_atoms(fields, loopvar))
    s = lambda: str_expr(depth - 1, loopvar, fields)
    choice = draw(st.integers(0, 15))
    if choice == 0:
        return ['call', draw(spell('extract')), [['str', draw(regex_capture)]]]
    if choice == 1:
        return ['call', 'extract', [draw(s()), ['str', draw(regex_capture)]]]
    if choice == 2:
        return ['call', draw(spell('split')), [['str', draw(st.sampled_from(['-', ' ', '*', ':', 'x', 'X', '--']))],
                                               ['num', draw(st.integers(-1, 4))]]]
    if choice == 3:
        return ['call', 'split', [draw(s()), ['str', draw(st.sampled_from(['-', ' ', '*', ':', 'E']))], ['num', draw(st.integers(-1, 3))]]]
    if choice == 4:
        a = draw(st.integers(-3, 8))
        b = draw(st.integers(-3, 30))
        return ['call', draw(spell('substring')), ([draw(s())] if draw(st.booleans()) else []) + [['num', a], ['num', b]]]
    if choice == 5:
        return ['call', draw(spell('trim')), [draw(s())] if draw(st.booleans()) else []]
    if choice == 6:
        return ['call', draw(spell('regex_replace')), [draw(s()), ['str', draw(regex_pattern)],
                                                       ['str', draw(st.sampled_from(['', 'X', ' ', '-']))]]]
    if choice == 7:
        return ['call', draw(st.sampled_from(['uppercase', 'lowercase', 'Uppercase'])), [draw(s())]]
    if choice == 8:
        return ['call', draw(st.sampled_from(['strip_prefix', 'strip_suffix'])),
                [draw(s()), ['str', draw(st.one_of(pattern_text, st.sampled_from(['', 'APLPAY ', 'SQ*', ' WA', 'sq *'])))]]]
    if choice == 9:
        return ['meth', draw(s()), draw(st.sampled_from(['lower', 'upper', 'strip', 'Lower'])), []]
    if choice == 10:
        return ['meth', draw(s()), 'replace', [['str', draw(st.sampled_from(['-', ' ', 'A', 'a', '*']))], ['str', draw(st.sampled_from(['', '_', 'b']))]]]
    if choice == 11:
        return ['if', draw(bool_expr(depth - 1, loopvar, fields)), draw(s()), draw(s())]
    if choice == 12:
        return ['concat', draw(s()), draw(s())]
    if choice == 13 and loopvar is None:
        v = draw(st.sampled_from(['r', 'o', 'R']))
        return ['nextgen', ['attr', v, 'item'], v, ['name', draw(st.sampled_from(['orders', 'receipts', 'Orders']))],
                draw(st.one_of(st.none(), bool_expr(depth - 1, v.lower(), fields))),
                draw(st.sampled_from([['str', 'none'], ['str', ''], None]))]
    return draw(str_atoms(fields, loopvar))


@st.composite
def num_expr(draw, depth=2, loopvar=None, fields=True):
    if depth <= 0 or draw(st.integers(0, 9)) < 4:
        return draw(num_atoms(loopvar))
    n = lambda: num_expr(depth - 1, loopvar, fields)
    choice = draw(st.integers(0, 11))
    if choice <= 2:
        return ['bin', draw(st.sampled_from(['+', '-', '*', '/', '%'])), draw(n()), draw(n())]
    if choice == 3:
        # zero divisors give 0; a divisor that is merely FALSY but no number ('' / an empty list) is a type error like any other
        return ['bin', draw(st.sampled_from(['/', '%'])), draw(n()), draw(st.sampled_from([['num', 0], ['num', 0.0], ['bin', '-', ['num', 5], ['num', 5]], ['str', ''], ['lit', False],
                                                                                            ['listcomp', ['name', 'r'], 'r', ['name', 'orders'], ['lit', False]]]))]
    if choice == 4:
        return ['neg', draw(n())]
    if choice == 5:
        return ['call', draw(spell('abs')), [draw(n())]]
    if choice == 6:
        return ['call', draw(spell('round')), [draw(n())] + ([['num', draw(st.integers(0, 2))]] if draw(st.booleans()) else [])]
    if choice == 7:
        return [draw(st.sampled_from(['min2', 'max2'])), draw(n()), draw(n())]
    if choice == 8:
        return ['if', draw(bool_expr(depth - 1, loopvar, fields)), draw(n()), draw(n())]
    if loopvar is None:
        v = draw(st.sampled_from(['r', 'x', 'Row']))
        src = ['name', draw(st.sampled_from(['orders', 'receipts']))]
        cond = draw(st.one_of(st.none(), bool_expr(depth - 1, v.lower(), fields)))
        if choice == 9:
            return ['sumgen', draw(num_expr(depth - 1, v.lower(), fields)), v, src, cond]
        if choice == 10:
            if draw(st.booleans()):
                return [draw(st.sampled_from(['minl', 'maxl'])), ['listcomp', ['attr', v, 'amount'], v, src, cond]]
            return ['len', ['listcomp', ['name', v], v, src, cond]]
        if draw(st.integers(0, 2)) == 0:
            return ['nextgen', ['attr', v, 'amount'], v, src, cond, draw(st.one_of(st.none(), st.just(['num', 0])))]
        return ['len', ['listcomp', ['attr', v, 'item'], v, src, cond]]
    return draw(num_atoms(loopvar))


def date_atom():
    return st.sampled_from([['name', 'date'], ['name', 'Date'], ['txn', 'date'], ['fieldb', 'date']])


@st.composite
def bool_atom(draw, depth, loopvar, fields):
    c = draw(st.integers(0, 16))
    if c == 16:
        c = 11
        force_walrus = True
    else:
        force_walrus = False
    if c == 15 and loopvar is None:
        # membership of a value in a LIST built from supplemental rows (not a substring test): exact for numbers, letter case as Python for strings
        v = draw(st.sampled_from(['r', 'o']))
        src = ['name', draw(st.sampled_from(['orders', 'receipts']))]
        op = draw(st.sampled_from(['in', 'not in']))
        if draw(st.integers(0, 3)) == 0:
            return ['cmp', draw(st.sampled_from([['txn', 'amount'], ['name', 'amount'], ['num', 9.99]])), [[op, ['listcomp', ['attr', v, 'amount'], v, src, None]]]]
        return ['cmp', ['str', draw(st.sampled_from(ROW_ITEMS + [x.lower() for x in ROW_ITEMS if x.strip()]))], [[op, ['listcomp', ['attr', v, 'item'], v, src, None]]]]
    if c >= 14:
        return ['var', draw(st.sampled_from(['is_large', 'Is_Large', 'IS_LARGE', 'undefined_var']))]
    s0 = lambda: str_expr(max(depth - 1, 0), loopvar, fields)
    n0 = lambda: num_expr(max(depth - 1, 0), loopvar, fields)
    if c <= 2:
        fn = draw(st.sampled_from(['contains', 'contains', 'startswith', 'normalized']))
        text = draw(st.one_of(st.none(), st.none(), s0()))
        return ['match', draw(spell(fn)), text, draw(pattern_text)]
    if c == 3:
        return ['match', draw(spell('regex')), draw(st.one_of(st.none(), s0())), draw(regex_pattern)]
    if c == 4:
        return ['anyof', draw(st.lists(pattern_text, min_size=1, max_size=4))]
    if c <= 6:
        ops = st.sampled_from(['<', '<=', '>', '>=', '==', '!='])
        first = draw(n0())
        links = draw(st.lists(st.tuples(ops, n0()), min_size=1, max_size=3 if depth > 0 else 1))
        return ['cmp', first, [list(l) for l in links]]
    if c == 7:
        op = draw(st.sampled_from(['==', '!=', 'in', 'not in', '==']))
        k7 = draw(st.integers(0, 5))
        if k7 == 0:
            return ['meth', draw(s0()), draw(st.sampled_from(['startswith', 'endswith', 'StartsWith'])), [['str', draw(st.one_of(pattern_text, word))]]]
        if k7 in (1, 2) and loopvar is None:
            v = draw(st.sampled_from(['r', 'o']))
            src = ['name', draw(st.sampled_from(['orders', 'receipts']))]
            if draw(st.booleans()):
                return ['cmp', draw(st.sampled_from([['txn', 'amount'], ['name', 'amount'], ['num', 9.99]])), [[draw(st.sampled_from(['in', 'not in'])), ['listcomp', ['attr', v, 'amount'], v, src, None]]]]
            return ['cmp', draw(st.one_of(s0(), st.sampled_from(ROW_ITEMS).map(lambda x: ['str', x]))), [[draw(st.sampled_from(['in', 'not in'])), ['listcomp', ['attr', v, 'item'], v, src, None]]]]
        return ['cmp', draw(s0()), [[op, draw(s0())]]]
    if c == 8:
        ops = st.sampled_from(['<', '<=', '>', '>=', '==', '!='])
        isod = lambda: iso_date.map(lambda d: ['str', d])
        if draw(st.booleans()):
            return ['cmp', draw(date_atom()), [[draw(ops), draw(isod())]]]
        return ['cmp', draw(isod()), [[draw(ops), draw(date_atom())], [draw(ops), draw(isod())]]]
    if c == 9:
        return ['exists', draw(st.one_of(s0(), st.sampled_from(FIELD_KEYS + ['nosuch']).map(lambda k: ['field', k])))]
    if c == 10:
        return ['lit', draw(st.booleans())] if draw(st.booleans()) else draw(st.sampled_from([['lit', True, 'true'], ['lit', False, 'false'], ['lit', True, 'TRUE']]))
    if c == 11 and loopvar is None and (force_walrus or (depth > 0 and draw(st.integers(0, 3)) == 0)):
        # := inside a comprehension / generator binds in the enclosing expression (Python semantics) and is read afterwards
        v = draw(st.sampled_from(['r', 'o']))
        src = ['name', draw(st.sampled_from(['orders', 'receipts']))]
        thr = ['num', draw(st.sampled_from(CONSTS))]
        shape = draw(st.integers(0, 2))
        if shape == 0:
            first = ['anygen', ['cmp', ['attr', ['walrus', 'hit', ['name', v]], 'amount'], [[draw(st.sampled_from(['>', '<=', '=='])), thr]]], v, src, None]
            after = ['cmp', ['attr', 'hit', 'item'], [[draw(st.sampled_from(['==', '!='])), ['str', draw(st.sampled_from(ROW_ITEMS))]]]]
        elif shape == 1:
            first = ['cmp', ['len', ['listcomp', ['walrus', 'last', ['attr', v, 'amount']], v, src, None]], [['>', ['num', 0]]]]
            after = ['cmp', ['var', 'last'], [[draw(st.sampled_from(['>', '<', '=='])), thr]]]
        else:
            first = ['cmp', ['walrus', 'tot', ['num', 0]], [['==', ['num', 0]]]]
            first = ['and', [first, ['cmp', ['len', ['listcomp', ['walrus', 'tot', ['bin', '+', ['var', 'tot'], ['attr', v, 'amount']]], v, src, None]], [['>=', ['num', 0]]]]]]
            after = ['cmp', ['var', 'tot'], [[draw(st.sampled_from(['>', '<', '=='])), thr]]]
        return ['and', [first, after]]
    if c == 11 and loopvar is None and depth > 0:
        v = draw(st.sampled_from(['r', 'o']))
        src = ['name', draw(st.sampled_from(['orders', 'receipts']))]
        kind = draw(st.sampled_from(['anygen', 'allgen']))
        return [kind, draw(bool_expr(depth - 1, v, fields)), v, src, draw(st.one_of(st.none(), bool_expr(depth - 1, v, fields)))]
    if c == 12 and fields:
        return ['cmp', ['field', draw(st.sampled_from(FIELD_KEYS))], [[draw(st.sampled_from(['==', '!='])), ['str', draw(st.sampled_from(FIELD_VALUES + CASE_VARIANTS_F))]]]]
    # == and != between strings ignore letter case alike: the literal is often the transaction's own source in another letter case
    return ['cmp', ['name', draw(spell('source'))], [[draw(st.sampled_from(['==', '==', '!=', '!='])), ['str', draw(st.sampled_from(SOURCES + CASE_VARIANTS_S))]]]]


@st.composite
def bool_expr(draw, depth=3, loopvar=None, fields=True):
    if depth <= 0 or draw(st.integers(0, 9)) < 3:
        return draw(bool_atom(depth, loopvar, fields))
    b = lambda: bool_expr(depth - 1, loopvar, fields)
    c = draw(st.integers(0, 8))
    if c <= 2:
        return ['and', draw(st.lists(b(), min_size=2, max_size=3))]
    if c <= 5:
        return ['or', draw(st.lists(b(), min_size=2, max_size=3))]
    if c == 6:
        k = draw(st.integers(0, 5))
        if k <= 1:
            # `not` is Boolean whatever its operand: not not 42.5 is True (not 42.5), also when used as a value
            inner = draw(st.one_of(num_expr(depth - 1, loopvar, fields), str_expr(depth - 1, loopvar, fields)))
            dbl = ['not', ['not', inner]] if k == 0 else ['not', inner]
            return dbl if draw(st.booleans()) else ['cmp', dbl, [[draw(st.sampled_from(['==', '!='])), ['lit', draw(st.booleans())]]]]
        return ['not', draw(b())]
    if c == 7:
        return ['if', draw(b()), draw(b()), draw(b())]
    return draw(bool_atom(depth, loopvar, fields))


def walk(e):
    """all sub-nodes (pre-order)."""
    if isinstance(e, list):
        if e and isinstance(e[0], str):
            yield e
        for x in e[1:] if e and isinstance(e[0], str) else e:
            if isinstance(x, list):
                yield from walk(x)


def kinds(e):
    return {n[0] for n in walk(e)}


def count_ops(e):
    return sum(1 for n in walk(e) if n[0] in ('and', 'or', 'not', 'cmp', 'bin', 'if', 'match', 'anyof', 'call', 'meth', 'anygen',
                                               'allgen', 'sumgen', 'nextgen', 'listcomp', 'concat', 'neg', 'exists'))


VAR_NAMES = {'is_large', 'threshold', 'label'}
vars_case = st.fixed_dictionaries({'is_large': st.booleans(), 'threshold': st.sampled_from(CONSTS + [12, 2024]),
                                   'label': st.one_of(word, st.sampled_from(FIELD_VALUES))})


KNOWN_KINDS = ATOMIC | {'cmp', 'and', 'or', 'not', 'if', 'bin', 'neg', 'concat', 'walrus'}


def transform(e, fn):
    """Rebuild an IR tree bottom-up; fn(node) -> node is applied to every node."""
    if not isinstance(e, list):
        return e
    out = [transform(x, fn) for x in e]
    if e and isinstance(e[0], str) and e[0] in KNOWN_KINDS and not (e[0] in ('str', 'num', 'lit', 'name', 'var', 'raw') and False):
        if e[0] in ('str', 'num', 'lit', 'name', 'var', 'raw', 'txn', 'field', 'fieldb'):
            out = list(e)
        return fn(out)
    return out


def flip_str_literals(e, mask):
    return transform(e, lambda n: ['str', flip_case(n[1], mask)] if n[0] == 'str' else n)


# ------------------------------------------------------------------------------------------------
# untyped ("wild") generator: syntactically valid, freely ill-typed / partial expressions (C08, C03)
# ------------------------------------------------------------------------------------------------
BAD_REGEX = ['(', '[', '*', '(?P<x', 'a{2,1}', '\\', '(?<=a+)b', ')']
HUGE_INT = int('9' * 400)

FUNC_NAMES = ['contains', 'regex', 'normalized', 'anyof', 'startswith', 'fuzzy', 'abs', 'round', 'extract', 'split', 'substring', 'trim',
              'regex_replace', 'uppercase', 'lowercase', 'strip_prefix', 'strip_suffix', 'exists', 'len', 'sum', 'any', 'all', 'next',
              'min', 'max', 'nosuchfn', 'sorted', 'str', 'int']

wild_atom = st.one_of(
    st.sampled_from([['name', 'amount'], ['name', 'description'], ['name', 'date'], ['name', 'month'], ['name', 'source'], ['txn', 'amount'],
                     ['txn', 'date'], ['txn', 'nosuch'], ['field', 'memo'], ['field', 'nosuch'], ['fieldb', 'amount'], ['name', 'orders'],
                     ['name', 'receipts'], ['name', 'undefined_name'], ['var', 'is_large'], ['var', 'label'], ['var', 'm'], ['raw', 'None'],
                     ['raw', 'txn'], ['raw', 'field'], ['raw', 'contains'], ['raw', '...'], ['raw', "b'x'"], ['raw', '1j'],
                     ['num', 0], ['num', 1], ['num', -1], ['num', 2.5], ['num', HUGE_INT], ['num', 1e308],
                     ['str', ''], ['str', 'UBER'], ['str', '2024-01-01'], ['str', 'not-a-date'], ['str', '5'], ['lit', True], ['lit', False]]),
    st.sampled_from(BAD_REGEX).map(lambda s: ['str', s]),
    pattern_text.map(lambda s: ['str', s]),
    # next() without default running dry INSIDE another generator / comprehension / multi-argument min-max
    st.sampled_from([
        ['anygen', ['cmp', ['nextgen', ['attr', 's', 'item'], 's', ['name', 'receipts'], ['lit', False], None], [['==', ['str', 'x']]]], 'o', ['name', 'orders'], None],
        ['anygen', ['lit', True], 'o', ['name', 'orders'], ['nextgen', ['name', 's'], 's', ['name', 'receipts'], ['lit', False], None]],
        ['listcomp', ['nextgen', ['attr', 's', 'item'], 's', ['name', 'orders'], ['lit', False], None], 'r', ['name', 'receipts'], None],
        ['listcomp', ['name', 'r'], 'r', ['name', 'orders'], ['nextgen', ['name', 's'], 's', ['name', 'orders'], ['lit', False], None]],
        ['sumgen', ['nextgen', ['attr', 's', 'amount'], 's', ['name', 'orders'], ['cmp', ['attr', 's', 'amount'], [['>', ['num', 10 ** 9]]]], None], 'o', ['name', 'orders'], None],
        ['min2', ['nextgen', ['attr', 's', 'amount'], 's', ['name', 'orders'], ['lit', False], None], ['num', 1]],
        ['max2', ['num', 1], ['nextgen', ['attr', 's', 'amount'], 's', ['name', 'receipts'], ['lit', False], None]],
        ['nextgen', ['nextgen', ['name', 's'], 's', ['name', 'orders'], ['lit', False], None], 'o', ['name', 'orders'], None, None],
    ]),
)


def _tame(e):
    if isinstance(e, list):
        if len(e) == 2 and e[0] == 'num' and isinstance(e[1], int) and abs(e[1]) > 400:
            return ['num', 400]
        return [_tame(x) for x in e]
    return e


@st.composite
def wild_expr(draw, depth=2):
    if depth <= 0 or draw(st.integers(0, 9)) < 3:
        return draw(wild_atom)
    w = lambda: wild_expr(depth - 1)
    c = draw(st.integers(0, 17))
    if c <= 1:
        return ['cmp', draw(w()), [[draw(st.sampled_from(['<', '<=', '>', '>=', '==', '!=', 'in', 'not in'])), draw(w())]
                                   for _ in range(draw(st.integers(1, 2)))]]
    if c == 2:
        return [draw(st.sampled_from(['and', 'or'])), draw(st.lists(w(), min_size=2, max_size=3))]
    if c == 3:
        return ['not', draw(w())]
    if c <= 5:
        return ['bin', draw(st.sampled_from(['+', '-', '*', '/', '%'])), draw(w()), draw(w())]
    if c == 6:
        return ['neg', draw(w())]
    if c <= 9:
        fn = draw(st.sampled_from(FUNC_NAMES))
        args = draw(st.lists(w(), max_size=4))
        if fn == 'round':
            # round(x, -N) on an int computes 10**N: with a 400-digit N that is resource exhaustion, which no listed property speaks about
            args = args[:1] + [_tame(a) for a in args[1:]]
        return ['call', fn, args]
    if c == 10:
        return ['meth', draw(w()), draw(st.sampled_from(['lower', 'upper', 'strip', 'startswith', 'endswith', 'replace', 'format', 'split', 'join', 'keys', '__class__'])),
                draw(st.lists(w(), max_size=2))]
    if c == 11:
        return ['sub', draw(w()), draw(st.one_of(w(), st.sampled_from([['num', 0], ['num', 5], ['num', -1], ['str', 'item'], ['str', 'nosuch']])))]
    if c == 12:
        return ['attr', draw(st.one_of(w(), st.sampled_from(['r', 'txn', 'field', 'orders']))), draw(st.sampled_from(['item', 'amount', 'nosuch', 'upper', '__class__']))]
    if c == 13:
        v = draw(st.sampled_from(['r', 'x']))
        return ['listcomp', draw(st.one_of(w(), st.just(['attr', v, 'item']), st.just(['name', v]))), v,
                draw(st.one_of(w(), st.just(['name', 'orders']))), draw(st.one_of(st.none(), w()))]
    if c == 14:
        v = draw(st.sampled_from(['r', 'x']))
        kind = draw(st.sampled_from(['sumgen', 'anygen', 'allgen', 'nextgen']))
        node = [kind, draw(st.one_of(w(), st.just(['attr', v, 'amount']))), v, draw(st.one_of(w(), st.just(['name', 'orders']), st.just(['name', 'receipts']))),
                draw(st.one_of(st.none(), w(), st.just(['lit', False])))]
        if kind == 'nextgen':
            node.append(draw(st.one_of(st.none(), w())))
        return node
    if c == 15:
        return ['if', draw(w()), draw(w()), draw(w())]
    if c == 16:
        return [draw(st.sampled_from(['len', 'minl', 'maxl'])), draw(w())]
    if draw(st.booleans()):
        v = draw(st.sampled_from(['r', 'x']))
        return ['gen', draw(st.one_of(w(), st.just(['attr', v, 'item']))), v, draw(st.one_of(w(), st.just(['name', 'orders']))), draw(st.one_of(st.none(), w()))]
    return ['walrus', draw(st.sampled_from(['tmp', 'amount', 'r'])), draw(w())]
