"""C19 - Every rule that discover suggests matches the transaction it was suggested for."""
from __future__ import annotations

import json
import re

from hypothesis import strategies as st

from tv import obs
from tv.harness import Stats, Violation, campaign, jhash

ID = 'C19'
LEVEL = 'exploration'
RULE = ('Generated transaction descriptions (1-6 tokens from a merchant-like vocabulary: mixed case, digits, store numbers mid-string and '
        'trailing, state suffixes, zip codes, processor prefixes APLPAY/SQ */TST*/SP/PP*/GOOGLE *, runs of blanks, every regex '
        'metacharacter, quotes, backslashes, uncased non-ASCII). Closure oracle: suggest_merchants_rule(suggest_merchant_name(d), '
        'suggest_pattern(d)) given a real category must be accepted by parse_merchants and must categorize d itself; the same for the '
        'suggested_rule of `tally discover --format json` and for the rule block printed by the text format on a budget holding the '
        'descriptions; end to end: appending all suggestions to merchants.rules strictly shrinks the Unknown list (to zero). '
        'Non-trivial = description with >=2 words or >=1 regex metacharacter; distinct by the description.')
ASSUMPTIONS = ['descriptions are as the parser delivers them: stripped, non-empty, single-line',
               'letters are ASCII; non-ASCII characters are uncased (the suggestion upper-cases the description)']
REQUIRED_CLASSES = ['metachar', 'multiword', 'store_number_mid', 'store_number_glued', 'prefix', 'quote_or_backslash', 'budget_end_to_end', 'budget_refund', 'free_text']

WORDS = ['STARBUCKS', 'Netflix.com', 'UBER', 'EATS', 'AMZN', 'Mktp', 'US*1A2B3', 'WHOLEFDS', 'TRADER', "JOE'S", 'SHELL', 'OIL', 'COSTCO', 'WHSE', 'THE', 'HOME', 'DEPOT',
         'McDonald\'s', 'F12345', 'C++', 'A.B.', '(PARKING)', '[GARAGE]', 'R&D', '50%', 'PAY$', '^TOP', 'a|b', 'q?', '{x}', 'ab{2}', 'back\\slash', 'say"hi"', "it's", '日本', '☕',
         'café'.replace('é', 'e'), 'T-MOBILE', 'AT&T', '7-ELEVEN', 'H&M', 'E*TRADE', '24', 'PAYMENT', 'THANK', 'YOU',
         # typographic quotes as banks print them (not the ASCII ' and ")
         'MCDONALD\u2019S', 'LOWE\u2019s', '\u201cORIGINAL\u201d', '\u2018N\u2019', 'Caf\u00e9',
         # HTML character references as some banks export them: plain text to every rule
         'AT&amp;T', 'MACY&#39;S', 'A&AMP', '&quot;Q&quot;', 'B&lt;C', 'R&D;']
SUFFIXES = ['', '', ' #1234', ' 00012345', ' WA', ' CA', ' 98101', ' SEATTLE WA', ' #12 SEATTLE WA', ' 1234567 800-555-1212 WA', ' DES:PAYROLL ID:99', ' ny', ' #4712A SEATTLE WA', ' #12-B']
PREFIXES = ['', '', '', 'APLPAY ', 'SQ *', 'TST* ', 'TST*', 'SP ', 'PP*', 'GOOGLE *', 'sq *', 'Aplpay ']
SEPS = [' ', ' ', ' ', '  ', '   ', ' - ', '*', ' #77 ', ' #4712A ', ' #12-B ', ' #1234/', ' #9', '#5 ']


@st.composite
def description(draw):
    ws = draw(st.lists(st.sampled_from(WORDS), min_size=1, max_size=6))
    s = ws[0]
    for w in ws[1:]:
        s += draw(st.sampled_from(SEPS)) + w
    s = draw(st.sampled_from(PREFIXES)) + s + draw(st.sampled_from(SUFFIXES))
    mask = draw(st.one_of(st.just(0), st.integers(0, 65535)))
    s = ''.join(c.swapcase() if c.isascii() and c.isalpha() and (mask >> (i % 16)) & 1 else c for i, c in enumerate(s))
    return s.strip() or 'X'


# descriptions that are not built from the vocabulary at all: any printable text a statement cell can carry
import string as _string
FREE_ALPHABET = _string.ascii_letters + _string.digits + " .,*#&'\"()[]{}|?+^$\\/-_:;!@%=<>~`" + 'éÉßİıǅ日本☕\t\u00a0\u2009\u2019\u2018\u201c\u201d\u201e'
free_description = st.text(alphabet=FREE_ALPHABET, min_size=1, max_size=30).map(lambda d: d.strip() or 'X')


def with_category(rule_text):
    return rule_text.replace('subcategory: SUBCATEGORY', 'subcategory: Sub').replace('category: CATEGORY', 'category: Cat')


def closure(d, rule_text, origin, case):
    from tally.merchant_engine import parse_merchants
    text = with_category(rule_text) + '\n'
    try:
        eng = parse_merchants(text)
    except Exception as e:
        raise Violation(f'the rule suggested by {origin} for {d!r} is rejected by the rules loader: {type(e).__name__}: {e}\n{text}', case, 'suggestion-rejected')
    if len(eng.rules) != 1:
        raise Violation(f'the suggestion for {d!r} loads as {len(eng.rules)} rules\n{text}', case, 'suggestion-shape')
    try:
        r = eng.match({'description': d, 'amount': 12.5})
    except Exception as e:
        raise Violation(f'matching {d!r} against its own suggestion raised {type(e).__name__}: {e}\n{text}', case, 'suggestion-crash')
    if not r.matched or r.category != 'Cat':
        raise Violation(f'the rule suggested by {origin} does not match the description it was suggested for\n  description: {d!r}\n{text}', case, 'suggestion-no-match')


def classify(d):
    cl = set()
    if re.search(r'[.*+?^${}()|\[\]\\]', d):
        cl.add('metachar')
    if len(d.split()) >= 2:
        cl.add('multiword')
    if re.search(r'\s#\d+\s+\S', d):
        cl.add('store_number_mid')
    if re.search(r'\s#\d+[^\s\d]', d):
        cl.add('store_number_glued')
    if any(d.upper().startswith(p.upper()) for p in PREFIXES if p):
        cl.add('prefix')
    if '"' in d or '\\' in d:
        cl.add('quote_or_backslash')
    return cl


def check(d, stats: Stats):
    from tally.commands.discover import suggest_merchant_name, suggest_merchants_rule, suggest_pattern
    case = {'kind': 'desc', 'd': d}
    try:
        rule = suggest_merchants_rule(suggest_merchant_name(d), suggest_pattern(d))
    except Exception as e:
        raise Violation(f'suggesting a rule for {d!r} raised {type(e).__name__}: {e}', case, 'suggest-crash')
    closure(d, rule, 'suggest_merchants_rule', case)
    cl = classify(d)
    stats.case(jhash(d), bool(cl & {'metachar', 'multiword'}), cl, sample={'description': d, 'rule': rule} if len(stats.samples) < 4 else None)


# ------------------------------------------------------------------------------------------------
# budget level: discover --format json / text, and the discover-write-rerun loop
# ------------------------------------------------------------------------------------------------
@st.composite
def _budget(draw):
    """Descriptions plus VARIANTS of them that share the suggested merchant name but need a different pattern (store number in
    the middle, DES:/ID: tails, other suffixes), with generated amounts so that discover's by-spend order varies."""
    base = draw(st.lists(st.one_of(description(), description(), description(), free_description.filter(lambda d: '\n' not in d)), min_size=1, max_size=5, unique=True))
    out = []
    for d in base:
        out.append(d)
        for _ in range(draw(st.integers(0, 2))):
            ws = d.split(' ')
            kind = draw(st.integers(0, 4))
            if kind == 0 and len(ws) >= 2:
                v = ' '.join([ws[0], '#' + str(draw(st.integers(1, 9999)))] + ws[1:])
            elif kind == 1:
                v = d + draw(st.sampled_from([' DES:PAYMENT ID:A1', ' DES:CASHOUT ID:B2 INDN:X', ' ID:77']))
            elif kind == 2:
                v = d + draw(st.sampled_from([' WA', ' 98101', ' 0001234', ' #55']))
            elif kind == 3 and len(ws) >= 2:
                v = ' '.join([ws[0]] + ['  '] + ws[1:])
            else:
                v = draw(st.sampled_from(PREFIXES)) + d
            out.append(v.strip() or 'X')
    seen, uniq = set(), []
    for d in out:
        if d not in seen:
            seen.add(d)
            uniq.append(d)
    # refunds too: discover then suggests `tags: refund` with the rule
    amounts = [draw(st.integers(100, 99999)) * draw(st.sampled_from([1, 1, 1, -1])) for _ in uniq]
    return {'descs': uniq, 'cents': amounts}


budget_st = _budget()


def check_budget(bcase, stats: Stats):
    import csv
    import io
    from tv.drv import cli
    if isinstance(bcase, list):
        bcase = {'descs': bcase, 'cents': [1050 + 100 * i for i in range(len(bcase))]}
    descs = bcase['descs']
    case = {'kind': 'budget', 'descs': descs, 'cents': bcase['cents']}
    buf = io.StringIO()
    w = csv.writer(buf, lineterminator='\n')
    w.writerow(['Date', 'Description', 'Amount'])
    for i, d in enumerate(descs):
        w.writerow([f'2024-0{1 + i % 9}-1{i % 9}', d, f"{bcase['cents'][i] / 100:.2f}"])
    w.writerow(['2024-03-03', 'KNOWN MERCHANT', '5.00'])
    with cli.Budget() as b:
        b.write('config/settings.yaml', 'year: 2024\nmerchants_file: config/merchants.rules\ndata_sources:\n  - name: Bank\n    file: data/bank.csv\n'
                                        '    format: "{date:%Y-%m-%d},{description},{amount}"\n')
        rules0 = '[Known]\nmatch: contains("KNOWN MERCHANT")\ncategory: Misc\n'
        b.write('config/merchants.rules', rules0)
        b.write('data/bank.csv', buf.getvalue())
        r = cli.run(['discover', '--format', 'json', '--limit', '0', b.config], cwd=b.root)
        try:
            items = json.loads(r.out)
        except Exception:
            raise Violation(f'`tally discover --format json` did not print JSON (exit {r.code}):\n{(r.out + r.err)[:800]}', case, 'discover-json')
        listed = {it['raw_description'] for it in items}
        want = {d.strip() for d in descs}
        if listed != want:
            raise Violation(f'discover lists {sorted(listed)} but the Unknown descriptions are {sorted(want)}', case, 'discover-listing')
        for it in items:
            closure(it['raw_description'], it['suggested_rule'], 'discover --format json', case)
        # text format
        rt = cli.run(['discover', '--limit', '0', b.config], cwd=b.root)
        blocks = re.findall(r'^\s*(\[[^\n]*\])\s*\n\s*(match: [^\n]*)\n\s*(category: CATEGORY)\s*\n\s*(subcategory: SUBCATEGORY)', rt.out, re.M)
        if blocks and len(blocks) != len(items):  # (no block recognised at all = a layout this harness does not know: nothing asserted)
            raise Violation(f'text output shows {len(blocks)} rule blocks for {len(items)} unknown merchants\n{rt.out[:1500]}', case, 'discover-text')
        heads = re.findall(r'^\d+\. (.*)$', rt.out, re.M)
        for head, blk in zip(heads, blocks):
            full = [d for d in want if d[:60] == head]
            if len(full) == 1:
                closure(full[0], '\n'.join(blk), 'discover (text format)', case)
        # the loop terminates: adding every suggestion leaves nothing Unknown
        appended = rules0 + '\n' + '\n\n'.join(with_category(it['suggested_rule']) for it in items) + '\n'
        b.write('config/merchants.rules', appended)
        # (half of the time in the process state the first run left behind: the rules file has changed on disk since)
        r2 = cli.run(['discover', '--format', 'json', '--limit', '0', b.config], cwd=b.root, fresh=bool(len(appended) % 2))
        if 'No unknown transactions found' in r2.out:
            remaining = []
        else:
            try:
                remaining = json.loads(r2.out)
            except Exception:
                raise Violation(f'after appending the suggestions, discover fails (exit {r2.code}):\n{(r2.out + r2.err)[:800]}\n--- rules\n{appended}', case, 'discover-after')
        if len(remaining) >= len(items):
            raise Violation(f'appending all {len(items)} suggested rules did not shrink the Unknown list ({len(remaining)} remain)\n--- rules\n{appended}', case, 'loop-no-progress')
        if remaining:
            raise Violation(f'after appending every suggestion {len(remaining)} descriptions are still Unknown: {[x["raw_description"] for x in remaining]}\n--- rules\n{appended}',
                            case, 'loop-incomplete')
    stats.case(jhash(case), True, {'budget_end_to_end'} | ({'budget_refund'} if any(c < 0 for c in bcase['cents']) else set()), sample={'descriptions': descs[:3]} if len(stats.samples) < 5 else None)


def replay(case):
    try:
        if case['kind'] == 'budget':
            check_budget({'descs': case['descs'], 'cents': case.get('cents') or [1050 + 100 * i for i in range(len(case['descs']))]}, Stats())
        else:
            check(case['d'], Stats())
    finally:
        obs.cleanup()


def shards(tier):
    n = 2500 if tier == 'quick' else 25000
    return [('desc', n)] * 10 + [('free', n)] * 2 + [('budget', max(n // 20, 10))] * 4


def run_shard(kind, n, seed, tier):
    s = Stats()
    try:
        if kind == 'desc':
            campaign(description(), check, n, seed, s, tier)
        elif kind == 'free':
            campaign(free_description, check, n, seed, s, tier)
            s.classes['free_text'] += 1
        else:
            campaign(budget_st, check_budget, n, seed, s, tier)
    finally:
        obs.cleanup()
    return s
