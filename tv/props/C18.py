"""C18 - A format string maps columns by position, and inspect's suggestion round-trips."""
from __future__ import annotations

import csv
import io
import itertools
import re

from hypothesis import strategies as st

from tv import obs
from tv.harness import Stats, Violation, campaign, jhash

ID = 'C18'
LEVEL = 'exploration'
RULE = ('EXHAUSTIVE: every assignment of roles {date, description, amount, location, custom1..3, skip} to w<=6 columns (quick) / w<=7 '
        '(thorough), valid and invalid (missing required, duplicates, template absent / naming an uncaptured column), each rendered in '
        'two deterministic token spellings ({_}/{*}, letter case, blanks around commas, one of 6 date formats or none, +/- amount '
        'prefix) and parsed by parse_format_string; the expected FormatSpec / rejection is known by construction. RANDOM: widths up to '
        '12. INSPECT: generated CSV files whose header row mixes the auto-detect vocabulary with decoys, permutations, extra and quoted '
        'columns; `tally inspect` is run in-process, its suggested format line must be accepted by parse_format_string, select the '
        'columns inspect reported, and read the file\'s rows through parse_generic_csv. Non-trivial = arrangement with a skip or custom '
        'column and non-monotone role order (format part) / a suggestion was produced (inspect part); distinct by hash.')
ASSUMPTIONS = ['date formats contain no comma (a comma-split format string cannot express one; the docs list none)',
               'with {description} present a template is only generated when it names a column that is not captured at all']
REQUIRED_CLASSES = ['valid', 'invalid_missing', 'invalid_duplicate', 'invalid_template', 'template_mode', 'extra_fields', 'sign_prefix', 'inspect_suggestion', 'inspect_location']
ALL_EXHAUSTIVE = False

ROLES = ['date', 'description', 'amount', 'location', 'c1', 'c2', 'c3', 'skip']
CNAMES = {'c1': 'memo', 'c2': '_ref', 'c3': 'vendor9'}
DATE_FORMATS = [None, '%m/%d/%Y', '%Y-%m-%d', '%d/%m/%Y', '%d.%m.%Y', '%m/%d/%y', '%d %b %Y']


class LCG:
    def __init__(self, seed):
        self.s = (seed * 2654435761 + 12345) % (2 ** 31) or 1

    def next(self, n):
        self.s = (self.s * 1103515245 + 12345) % (2 ** 31)
        return (self.s >> 8) % n


def render(roles, g):
    toks = []
    datefmt = DATE_FORMATS[g.next(len(DATE_FORMATS))]
    sign = ['', '', '-', '+'][g.next(4)]
    for r in roles:
        if r == 'skip':
            toks.append(['{_}', '{*}'][g.next(2)])
        elif r == 'date':
            name = ['date', 'Date', 'DATE'][g.next(3)]
            toks.append('{%s}' % name if datefmt is None else '{%s:%s}' % (name, datefmt))
        elif r == 'amount':
            toks.append('{%s%s}' % (sign, ['amount', 'Amount', 'AMOUNT'][g.next(3)]))
        elif r in CNAMES:
            n = CNAMES[r]
            toks.append('{%s}' % [n, n.upper(), n.capitalize()][g.next(3)])
        else:
            toks.append('{%s}' % [r, r.capitalize(), r.upper()][g.next(3)])
    sep = [',', ', ', ' , ', ',  '][g.next(4)]
    s = sep.join(toks)
    if g.next(3) == 0:
        s = ' ' + s + '  '
    return s, datefmt, sign


def expectation(roles, template):
    """-> ('ok', dict) | ('reject', reason)"""
    cnt = {r: roles.count(r) for r in set(roles)}
    for r in ('date', 'description', 'amount', 'location', 'c1', 'c2', 'c3'):
        if cnt.get(r, 0) > 1:
            return ('reject', 'duplicate')
    customs = {CNAMES[r]: i for i, r in enumerate(roles) if r in CNAMES}
    has_desc = 'description' in roles
    if not has_desc and not customs:
        return ('reject', 'missing')
    if 'date' not in roles or 'amount' not in roles:
        # (also reported when the description side is fine)
        pass
    if not has_desc and customs and not template:
        return ('reject', 'template')
    if template:
        refs = re.findall(r'\{(\w+)\}', template)
        captured = set(customs) if not has_desc else set()
        if any(x not in captured for x in refs):
            return ('reject', 'template')
    if 'date' not in roles or 'amount' not in roles:
        return ('reject', 'missing')
    return ('ok', {'date_column': roles.index('date'), 'amount_column': roles.index('amount'),
                   'description_column': roles.index('description') if has_desc else None,
                   'custom_captures': (customs or None) if not has_desc else None,
                   'extra_fields': (customs or None) if has_desc else None,
                   'location_column': roles.index('location') if 'location' in roles else None})


def check_one(roles, template, variant, stats: Stats, sample=False):
    from tally.format_parser import parse_format_string
    g = LCG(hash_roles(roles) * 7 + variant)
    fmt, datefmt, sign = render(roles, g)
    case = {'kind': 'format', 'roles': list(roles), 'template': template, 'variant': variant}
    exp = expectation(list(roles), template)
    try:
        spec = parse_format_string(fmt, template)
        got = ('ok', spec)
    except ValueError as e:
        got = ('reject', str(e))
    except Exception as e:
        raise Violation(f'parse_format_string({fmt!r}, {template!r}) raised {type(e).__name__}: {e}', case, 'crash')
    if exp[0] == 'reject':
        if got[0] != 'reject':
            raise Violation(f'format string {fmt!r} (template {template!r}) should be rejected ({exp[1]}) but was accepted as {got[1]}', case, 'accepted-invalid:' + exp[1])
        cl = {'invalid_' + exp[1]}
    else:
        if got[0] != 'ok':
            raise Violation(f'valid format string {fmt!r} (template {template!r}) was rejected: {got[1]}', case, 'rejected-valid')
        e = exp[1]
        for k, v in e.items():
            if getattr(spec, k) != v:
                raise Violation(f'format string {fmt!r}: {k} = {getattr(spec, k)!r}, by position it is {v!r}', case, 'position:' + k)
        if spec.date_format != (datefmt or '%m/%d/%Y'):
            raise Violation(f'format string {fmt!r}: date_format = {spec.date_format!r}, written {datefmt!r}', case, 'date-format')
        if (spec.negate_amount, spec.abs_amount) != (sign == '-', sign == '+'):
            raise Violation(f'format string {fmt!r}: negate/abs = {(spec.negate_amount, spec.abs_amount)}, prefix was {sign!r}', case, 'sign')
        if spec.description_template != template:
            raise Violation(f'format string {fmt!r}: template {spec.description_template!r} != {template!r}', case, 'template')
        cl = {'valid'}
        if e['custom_captures']:
            cl.add('template_mode')
        if e['extra_fields']:
            cl.add('extra_fields')
        if sign:
            cl.add('sign_prefix')
    core = [r for r in roles if r != 'skip']
    nontrivial = ('skip' in roles or any(r in CNAMES for r in roles)) and core != sorted(core, key=ROLES.index)
    stats.case(jhash([list(roles), template, variant]), nontrivial, cl, sample={'format': fmt, 'template': template, 'expect': exp[0]} if sample else None)


def hash_roles(roles):
    h = 0
    for r in roles:
        h = h * 8 + ROLES.index(r)
    return h + len(roles) * 10 ** 7


def templates_for(roles):
    customs = [CNAMES[r] for r in roles if r in CNAMES]
    has_desc = 'description' in roles
    out = [None]
    if customs and not has_desc:
        out.append(' - '.join('{%s}' % c for c in dict.fromkeys(customs)))
        out.append('{%s} ({nosuch})' % customs[0])
        out.append('{%s} {%s}' % (customs[0], customs[0][1:-1]))  # `emo` is not captured although `memo` is
        if len(set(customs)) > 1:
            out.append('{%s}' % customs[-1])
    elif has_desc:
        out.append('{nosuch}')
    else:
        out.append('{memo}')
    return out


def exhaustive(tier, stats, part, nparts):
    wmax = 6 if tier == 'quick' else 7
    k = 0
    for w in range(1, wmax + 1):
        for roles in itertools.product(ROLES, repeat=w):
            k += 1
            if k % nparts != part:
                continue
            for t in templates_for(roles):
                for variant in (0, 1):
                    check_one(roles, t, variant, stats, sample=(k % 40009 == 0 and variant == 0))
    stats.exhaustive[f'all role assignments to w<={wmax} columns x template options x 2 spellings'] = True


# ------------------------------------------------------------------------------------------------
# random wide arrangements
# ------------------------------------------------------------------------------------------------
wide_st = st.tuples(st.lists(st.sampled_from(ROLES + ['skip', 'skip']), min_size=6, max_size=12), st.integers(0, 3), st.integers(0, 1000))


def check_wide(c, stats):
    roles, ti, variant = c
    ts = templates_for(roles)
    check_one(tuple(roles), ts[ti % len(ts)], variant, stats, sample=(variant % 97 == 0))


# ------------------------------------------------------------------------------------------------
# inspect round trip
# ------------------------------------------------------------------------------------------------
HDR_DATE = ['Date', 'Transaction Date', 'Posting Date', 'Trans Date', 'date', 'DATE', 'Trans_Date', 'Payment Date', 'Statement Date', 'Charge Date']
HDR_DESC = ['Description', 'Merchant', 'Payee', 'Memo', 'Name', 'Merchant Name', 'description', 'Charge Description', 'Debit Memo', 'Payee Name', 'Payment Description']
HDR_AMT = ['Amount', 'Debit', 'Charge', 'Transaction Amount', 'Payment', 'amount', 'AMOUNT (USD)', 'Payment Amount', 'Charge Amount', 'Debit Amount']
HDR_LOC = ['Location', 'City', 'State', 'City/State', 'Region', 'Merchant State', 'Merchant City']
HDR_DECOY = ['Reference', 'Card No.', 'Category', 'Balance', 'Type', 'Check #', 'Notes, misc', 'Account "X"', 'Posted', 'Currency', 'Status', 'Foreign Fee',
             # filler columns whose headers repeat, differ only in letter case / punctuation, are blank or are not identifiers
             'Balance', 'balance', 'BALANCE', 'Ref', 'REF', 'Ref #', 'Check', '', ' ', '2024', 'class', 'Running-Balance', 'Running Balance']

inspect_st = st.fixed_dictionaries({
    'date': st.sampled_from(HDR_DATE), 'desc': st.sampled_from(HDR_DESC), 'amt': st.sampled_from(HDR_AMT),
    'loc': st.one_of(st.none(), st.sampled_from(HDR_LOC)),
    'decoys': st.lists(st.sampled_from(HDR_DECOY), max_size=5),
    'datestyle': st.sampled_from(['%m/%d/%Y', '%m/%d/%Y', '%Y-%m-%d', '%d.%m.%Y', '%b %d, %Y', '%d %b %Y', '%B %d, %Y']),
    'trailing_comma': st.sampled_from([False, False, True]),
    'perm': st.integers(0, 10 ** 6), 'drop': st.sampled_from([None, None, None, 'date', 'desc', 'amt']),
    'rows': st.lists(st.tuples(st.dates(min_value=__import__('datetime').date(2021, 1, 1), max_value=__import__('datetime').date(2026, 12, 31)),
                               st.sampled_from(['NETFLIX.COM', 'UBER *EATS', 'COFFEE, SHOP', 'AMZN "MKTP"', 'x', "JOES 'DINER' MAIN ST", 'TWO WORDS', "O'NEIL'S PUB; BAR"]), st.integers(-99999, 99999).filter(lambda c: c != 0)).map(list),
                     min_size=1, max_size=5),
})


def check_inspect(case, stats: Stats):
    from tally.format_parser import parse_format_string
    from tally.parsers import parse_generic_csv
    from tv.drv import cli
    cols = [('date', case['date']), ('desc', case['desc']), ('amt', case['amt'])]
    if case['loc']:
        cols.append(('loc', case['loc']))
    cols += [('decoy', d) for d in case['decoys']]
    if case['drop']:
        cols = [c for c in cols if c[0] != case['drop']]
    g = LCG(case['perm'])
    for i in range(len(cols) - 1, 0, -1):
        j = g.next(i + 1)
        cols[i], cols[j] = cols[j], cols[i]
    buf = io.StringIO()
    w = csv.writer(buf, lineterminator='\n')
    w.writerow([h for _, h in cols])
    for d, desc, cents in case['rows']:
        row = []
        for kind, _ in cols:
            row.append({'date': (d if hasattr(d, 'strftime') else __import__('datetime').date.fromisoformat(d)).strftime(case.get('datestyle', '%m/%d/%Y')), 'desc': desc,
                        'amt': f'{cents / 100:.2f}', 'loc': 'Seattle', 'decoy': 'zz'}[kind])
        w.writerow(row)
    text = buf.getvalue()
    if case.get('trailing_comma'):
        # exports that end every DATA row with a comma (the header row has none)
        first, _, rest = text.partition('\n')
        text = first + '\n' + ''.join(l + ',\n' for l in rest.split('\n') if l)
    path = obs.write_rules(text, 'statement.csv')
    r = cli.run(['inspect', path])
    out = r.out + r.err
    jcase = dict(case, rows=[[str(d), desc, c] for d, desc, c in case['rows']], kind='inspect')
    if obs.crashed(out):
        raise Violation(f'`tally inspect` crashed on\n{text}\n{out[-800:]}', jcase, 'inspect-crash')
    m = re.search(r'Suggested format string:\s*\n\s*format: "([^"]*)"', out)
    classes = set()
    if not m:
        classes.add('inspect_no_suggestion')
        stats.case(jhash(jcase), False, classes)
        return
    fmt = m.group(1)
    rep = {k: int(v) for k, v in re.findall(r'- (Date|Description|Amount|Location) column: (\d+)', out)}
    try:
        spec = parse_format_string(fmt)
    except Exception as e:
        raise Violation(f'inspect suggested format {fmt!r} which parse_format_string rejects: {e}\nfile:\n{text}', jcase, 'inspect-rejected')
    got = {'Date': spec.date_column, 'Description': spec.description_column, 'Amount': spec.amount_column}
    if spec.location_column is not None or 'Location' in rep:
        got['Location'] = spec.location_column
    if got != rep:
        raise Violation(f'inspect reported columns {rep} but its suggested format {fmt!r} selects {got}\nfile:\n{text}', jcase, 'inspect-columns')
    # the reported columns are the ones whose header carries the vocabulary word, and the format reads the file
    hdr = [h for _, h in cols]
    kinds = [k for k, _ in cols]
    try:
        txns = parse_generic_csv(path, spec, [], source_name='X')
    except Exception as e:
        raise Violation(f'parse_generic_csv with the suggested format {fmt!r} raised {type(e).__name__}: {e}', jcase, 'inspect-parse')
    if case.get('datestyle', '%m/%d/%Y') != '%m/%d/%Y':
        classes.add('inspect_other_date_style')  # the statement does not promise the suggested DATE FORMAT fits the data: acceptance and columns only
    elif kinds[spec.date_column] == 'date' and kinds[spec.amount_column] == 'amt' and kinds[spec.description_column] == 'desc':
        if len(txns) != len(case['rows']):
            raise Violation(f'the suggested format {fmt!r} reads {len(txns)} of {len(case["rows"])} rows\nfile:\n{text}', jcase, 'inspect-rows')
        for t, (d, desc, cents) in zip(txns, case['rows']):
            if t['raw_description'] != desc.strip() or t['amount'] != float(f'{cents / 100:.2f}'):
                raise Violation(f'suggested format {fmt!r} reads {t["raw_description"]!r}/{t["amount"]} for row {desc!r}/{cents / 100}', jcase, 'inspect-values')
    classes.add('inspect_suggestion')
    if 'Location' in rep:
        classes.add('inspect_location')
    stats.case(jhash(jcase), True, classes, sample={'header': hdr, 'format': fmt} if case['perm'] % 13 == 0 else None)


def replay(case):
    try:
        if case.get('kind') == 'inspect':
            c = dict(case)
            import datetime
            c['rows'] = [[datetime.date.fromisoformat(d), desc, cents] for d, desc, cents in case['rows']]
            check_inspect(c, Stats())
        else:
            check_one(tuple(case['roles']), case['template'], case['variant'], Stats())
    finally:
        obs.cleanup()


def shards(tier):
    n = 150 if tier == 'quick' else 4000
    return [(f'exhaustive:{i}:12', 0) for i in range(12)] + [('wide', n * 4)] * 1 + [('inspect', n * 2)] * 3


def run_shard(kind, n, seed, tier):
    s = Stats()
    try:
        if kind.startswith('exhaustive'):
            _, part, nparts = kind.split(':')
            try:
                exhaustive(tier, s, int(part), int(nparts))
            except Violation as v:
                s.violation(v)
        elif kind == 'wide':
            campaign(wide_st, check_wide, n, seed, s, tier)
        else:
            campaign(inspect_st, check_inspect, n, seed, s, tier)
    finally:
        obs.cleanup()
    return s
