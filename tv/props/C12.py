"""C12 - HTML, JSON, Markdown and text outputs all render and carry the same data."""
from __future__ import annotations

import contextlib
import io
import json
import os
import re
from datetime import date, datetime
from html.parser import HTMLParser

from hypothesis import strategies as st

from tv import obs
from tv.harness import Stats, Violation, campaign, jhash

ID = 'C12'
LEVEL = 'exploration'
RULE = ('Generated classified transactions (1-25; hostile strings in descriptions, merchant names, categories, tags and extra fields: '
        '</script>, <!--, quotes, backslashes, U+2028, the template placeholders, {amount}, non-ASCII; merchant names differing only in '
        'quotes/blanks/underscores; negative and zero totals; extra_fields holding str/number/bool/None/list/row dict/date; with and '
        'without views) analysed by analyze_transactions (+classify_by_sections) and rendered by export_json, export_markdown, '
        'print_summary, print_sections_summary (verbosity 0-2, both groupings) and write_summary_file_vue (embedded and separate files), '
        'with the documented currency formats. Oracle: no renderer raises; income/spending/credits/transfers/cash-flow parsed back from '
        'Markdown and text equal the analysed figures to printed precision and the HTML data exactly; the HTML data, decoded by '
        'html.parser then json.loads, lists every merchant once and every transaction once with its description/amount/month/tags/'
        'source/extra fields, category totals sum to the analysed total and typeTotals to the flow totals. Non-trivial = >=2 merchants, '
        '>=1 hostile string or colliding name pair, >=2 buckets populated.')
ASSUMPTIONS = ['real browsers are not driven: the HTML is decoded with html.parser + json.loads',
               'export_json\'s summary block is merchant-level by design (known finding D-json-summary): its figures are asserted only where '
               'merchant-level and transaction-level figures coincide (no merchant mixes signs, no special tags)']
REQUIRED_CLASSES = ['hostile_script_close', 'hostile_placeholder', 'colliding_names', 'extra_field_date', 'with_views', 'negative_total', 'json_summary_asserted']

HOSTILE = ['</script>', '</SCRIPT >', '<!--', '<script>', 'x</script><script>alert(1)</script>', '"', "'", '\\', 'a\\"b', ' ', ' ', '/* DATA_PLACEHOLDER */',
           '/* JS_PLACEHOLDER */', '/* CSS_PLACEHOLDER */', '{amount}', '{0}', 'naïve ☕', '&amp;', '<b>bold</b>', 'a|b', '100%', 'window.spendingData = 1;', '];', '\t', '__proto__', 'constructor', 'toString', 'Cafe\u0301', 'Caf\u00e9', '\u212bngstrom \u2126', '\u1100\u1161', 'ﬁne']
PLAIN = ['NETFLIX', 'Uber Eats', 'Whole Foods', 'Shell Oil', 'Rent', 'Paycheck', 'Vanguard', 'Savings Xfer']
NAME_GROUPS = [['Cafe\u0301', 'Caf\u00e9', 'CAFE\u0301'], ['A B', 'A_B', "A' B", 'A B 2', 'A_B_2', 'A B_3'], ["O'Neil", 'ONeil', 'O"Neil', 'ONeil 2', "O'Neil_2"], ['X"Y', 'XY', "X'Y", 'XY_2', 'XY 2', 'XY_2_2'],
               ['Cafe Z', 'Cafe_Z', 'Cafe Z 2', 'Cafe_Z_2_2', "Trader Joe's", 'Trader Joes', 'Trader Joes 2']]
CURRENCIES = ['${amount}', '{amount} zl', '£{amount}', '€{amount}', '{amount} kr']
SPECIAL = ['income', 'investment', 'transfer']

text_st = st.one_of(st.sampled_from(PLAIN), st.sampled_from(HOSTILE), st.tuples(st.sampled_from(PLAIN), st.sampled_from(HOSTILE)).map(lambda p: p[0] + ' ' + p[1]))
name_st = st.one_of(st.sampled_from(PLAIN), st.sampled_from([n for g in NAME_GROUPS for n in g]), st.sampled_from([n for g in NAME_GROUPS for n in g]),
                    st.tuples(st.sampled_from(PLAIN), st.sampled_from([h for h in HOSTILE if '\t' not in h])).map(lambda p: p[0] + ' ' + p[1]))
extra_val = st.one_of(text_st, st.integers(-5, 5), st.floats(allow_nan=False, allow_infinity=False, width=32), st.booleans(), st.none(),
                      st.lists(text_st, max_size=2), st.just({'date': '@date:2024-02-29', 'item': '</script>', 'amount': 12.5}), st.just('@date:2024-01-31'),
                      st.just(['@date:2023-12-31', 'x']))
PATTERNS = ['contains("NETFLIX")', 'contains("</script>")', "startswith('UBER')", 'anyof("a", "b", "c", "d")', 'anyof("x")', 'A|B|C|D|E', 'UBER|LYFT', '^START.*END$', 'NETFLIX\\s+COM',
            'regex("</script>") and amount > 5', '(unbalanced', '[', 'contains(', 'anyof()', '', '^', '$', '|', 'a|' * 5, 'contains("/* DATA_PLACEHOLDER */")', '{amount}', '\\', 'naïve ☕.*']
match_info_st = st.one_of(st.none(), st.fixed_dictionaries({
    'pattern': st.one_of(st.sampled_from(PATTERNS), st.sampled_from(HOSTILE), st.none()), 'source': st.sampled_from(['user', 'csv', '</script>', '']),
    'tag_sources': st.dictionaries(st.sampled_from(['recurring', 'x', '</script>']), st.fixed_dictionaries({'rule': text_st, 'pattern': st.sampled_from(PATTERNS)}), max_size=2)}))
txn_st = st.fixed_dictionaries({
    'mi': match_info_st,
    'merchant': name_st, 'cat': st.integers(0, 3), 'desc': text_st,
    'amount': st.one_of(st.integers(-50000, 90000).map(lambda c: c / 100.0), st.sampled_from([0.0, -0.01, 1234.565, 1e6])),
    'mo': st.integers(0, 13), 'day': st.integers(1, 28), 'src': st.sampled_from(['Amex', 'Chase </script>', 'Bank "A"']),
    'tags': st.lists(st.one_of(st.sampled_from(SPECIAL + ['Income', 'TRANSFER']), st.sampled_from(['recurring', 'x']), st.sampled_from(HOSTILE)), max_size=2),
    'extra': st.one_of(st.none(), st.none(), st.dictionaries(st.sampled_from(['items', 'note', 'n']), extra_val, min_size=1, max_size=2)),
    'loc': st.one_of(st.none(), st.sampled_from(['WA', '</script>'])),
})
case_st = st.fixed_dictionaries({'txns': st.lists(txn_st, min_size=1, max_size=25), 'views': st.booleans(), 'currency': st.sampled_from(CURRENCIES),
                                 # (category / subcategory names include the ones the report itself uses for unmatched or blank entries: they share a display slot)
                                 'catnames': st.lists(st.one_of(text_st, text_st, st.sampled_from(['Unknown', 'Uncategorized', 'Other', 'Food', 'unknown'])), min_size=4, max_size=4)})


def revive(v):
    """JSON case -> python value ('@date:...' markers become date objects, as rule expressions can yield them)."""
    if isinstance(v, str) and v.startswith('@date:'):
        return date.fromisoformat(v[6:])
    if isinstance(v, list):
        return [revive(x) for x in v]
    if isinstance(v, dict):
        return {k: revive(x) for k, x in v.items()}
    return v


def build_txns(case):
    out = []
    for t in case['txns']:
        y, m = divmod(t['mo'] + 10, 12)
        d = {'amount': t['amount'], 'date': datetime(2023 + y, m + 1, t['day']), 'merchant': t['merchant'], 'category': case['catnames'][t['cat'] % 2] or 'C',
             'subcategory': case['catnames'][2 + t['cat'] // 2] or 'S', 'description': t['merchant'], 'raw_description': t['desc'], 'source': t['src'],
             'tags': list(t['tags']), 'location': t['loc']}
        if t['extra']:
            d['extra_fields'] = revive(t['extra'])
        if t.get('mi'):
            d['match_info'] = dict(t['mi'], tags=list(t['tags']))
        out.append(d)
    if case.get('mixed'):
        # 'mixed' shard: a merchant's payments may fall into several categories (two rules naming one merchant); only "every format renders" is asserted there
        return out
    # one merchant = one (category, subcategory): labels of mixed merchants are last-writer and not part of the statement
    first = {}
    for d in out:
        first.setdefault(d['merchant'], (d['category'], d['subcategory']))
        d['category'], d['subcategory'] = first[d['merchant']]
    return out


class ScriptGrabber(HTMLParser):
    def __init__(self):
        super().__init__(convert_charrefs=True)
        self.in_script = False
        self.scripts = []
        self.cur = []

    def handle_starttag(self, tag, attrs):
        if tag == 'script':
            self.in_script = True
            self.cur = []

    def handle_endtag(self, tag):
        if tag == 'script' and self.in_script:
            self.in_script = False
            self.scripts.append(''.join(self.cur))

    def handle_data(self, data):
        if self.in_script:
            self.cur.append(data)


def decode_html(html, case):
    p = ScriptGrabber()
    p.feed(html)
    p.close()
    datas = [s for s in p.scripts if s.lstrip().startswith('window.spendingData =')]
    if len(datas) != 1:
        raise Violation(f'the report contains {len(datas)} script elements starting with "window.spendingData =" (expected exactly 1) among {len(p.scripts)} scripts', case, 'html-data-script')
    body = datas[0].lstrip()[len('window.spendingData ='):].strip()
    if body.endswith(';'):
        body = body[:-1]
    try:
        return json.loads(body)
    except ValueError as e:
        raise Violation(f'the data embedded in the HTML report does not decode as JSON: {e}; script text starts {body[:120]!r} ends {body[-80:]!r}', case, 'html-data-json')


def jsonable(v):
    """What json round-tripping makes of an extra-field value (dates become their ISO text)."""
    if isinstance(v, (date, datetime)):
        return str(v)
    if isinstance(v, (list, tuple)):
        return [jsonable(x) for x in v]
    if isinstance(v, dict):
        return {str(k): jsonable(x) for k, x in v.items()}
    return v


def num_after(label, text, case, what):
    m = re.search(label + r'[^\n]*?(-?)\s*[^\d\n-]*?(-?)\s*[^\d\n-]*?([\d][\d,]*(?:\.\d+)?)', text)
    if not m:
        raise Violation(f'{what}: no line matching {label!r} in\n{text[:600]}', case, 'figure-missing')
    val = float(m.group(3).replace(',', ''))
    return -val if (m.group(1) or m.group(2)) else val


def check(case, stats: Stats):
    from tally import section_engine as se
    from tally.analyzer import (analyze_transactions, classify_by_sections, compute_section_totals, export_json, export_markdown, print_sections_summary,
                                print_summary, write_summary_file_vue)
    txns = build_txns(case)
    try:
        st_ = analyze_transactions([dict(t) for t in txns])
    except Exception as e:
        raise Violation(f'analyze_transactions raised {type(e).__name__}: {e}', case, 'crash:analyze')
    if case['views']:
        cfg = se.parse_sections('[Everything]\nfilter: True\n\n[Big </script>]\ndescription: over "100"\nfilter: total > 100\n\n[Neg]\nfilter: total < 0\n')
        res = classify_by_sections(st_['by_merchant'], cfg, st_['num_months'])
        st_['sections'] = {n: compute_section_totals(ms) for n, ms in res.items()}
        st_['_sections_config'] = cfg
    cur = case['currency']
    fig = {k: st_[k] for k in ('income_total', 'spending_total', 'credits_total', 'transfers_in', 'transfers_out', 'transfers_net', 'cash_flow', 'investment_total')}

    def render(name, fn):
        buf = io.StringIO()
        try:
            with contextlib.redirect_stdout(buf):
                r = fn()
        except Exception as e:
            raise Violation(f'{name} raised {type(e).__name__}: {e}', case, 'crash:' + name.split('(')[0])
        return r if r is not None else buf.getvalue()

    # ---------------- every format renders
    md = None
    for v in (0, 1, 2):
        js = render(f'export_json(verbose={v})', lambda: export_json(st_, verbose=v))
        md = render(f'export_markdown(verbose={v})', lambda: export_markdown(st_, verbose=v, currency_format=cur))
    txt_m = render('print_summary(merchant)', lambda: print_summary(st_, year=2024, currency_format=cur, group_by='merchant'))
    txt_s = render('print_summary(subcategory)', lambda: print_summary(st_, year=2024, currency_format=cur, group_by='subcategory'))
    txt_v = render('print_sections_summary', lambda: print_sections_summary(st_, year=2024, currency_format=cur)) if case['views'] else None
    d = obs.write_rules('x', 'placeholder')[:-len('/placeholder')]
    html_path = os.path.join(d, 'report.html')
    render('write_summary_file_vue(embedded)', lambda: write_summary_file_vue(st_, html_path, year=2024, currency_format=cur, sources=['Amex', '</script>'], embedded_html=True))
    html = open(html_path, encoding='utf-8').read()
    sep_path = os.path.join(d, 'sep', 'report.html')
    os.makedirs(os.path.dirname(sep_path))
    render('write_summary_file_vue(separate)', lambda: write_summary_file_vue(st_, sep_path, year=2024, currency_format=cur, sources=['Amex'], embedded_html=False))
    sep_data = open(os.path.join(d, 'sep', 'spending_data.js'), encoding='utf-8').read()

    if case.get('mixed'):
        cat_tot, m_tot = {}, {}
        for t in txns:
            if not ({x.lower() for x in t['tags']} & {x.lower() for x in SPECIAL}):
                cat_tot[(t['category'], t['subcategory'])] = cat_tot.get((t['category'], t['subcategory']), 0) + t['amount']
                m_tot[t['merchant']] = m_tot.get(t['merchant'], 0) + t['amount']
        lonely = any(v > 0 for v in cat_tot.values()) and not any(v > 0 for v in m_tot.values())
        stats.case(jhash(case), len({(t['merchant'], t['category'], t['subcategory']) for t in txns}) > len({t['merchant'] for t in txns}),
                   {'mixed_category_merchant'} | ({'positive_category_without_positive_merchant'} if lonely else set()))
        return
    # ---------------- same figures everywhere
    try:
        jd = json.loads(js)
    except ValueError as e:
        raise Violation(f'export_json output is not JSON: {e}', case, 'json-invalid')
    md_map = [('\\| Income \\|', 'income_total'), ('\\| Spending \\|', 'spending_total'), ('\\| Credits/Refunds \\|', 'credits_total'), ('\\*\\*Net Cash Flow\\*\\*', 'cash_flow'),
              ('\\| In \\|', 'transfers_in'), ('\\| Out \\|', 'transfers_out'), ('\\*\\*Net Transfers\\*\\*', 'transfers_net')]
    for label, key in md_map:
        got = num_after(label, md, case, 'markdown')
        want = fig[key]
        if key in ('spending_total',):
            got = abs(got)
        if abs(abs(got) - abs(want)) > 0.00501 or (key in ('cash_flow', 'transfers_net') and abs(got - want) > 0.00501):
            raise Violation(f'Markdown reports {key} = {got} but the analysis says {want}\n{md[:500]}', case, 'figures-markdown')
    for name, txt in (('print_summary', txt_m), ('print_summary(subcategory)', txt_s)):
        for label, key in [('Income:', 'income_total'), ('Spending:', 'spending_total'), ('Credits/Refunds:', 'credits_total'), ('Net Cash Flow:', 'cash_flow'),
                           ('\nIn:', 'transfers_in'), ('\nOut:', 'transfers_out'), ('Net Transfers:', 'transfers_net')]:
            got = num_after(re.escape(label), txt, case, name)
            want = fig[key]
            if abs(abs(got) - abs(want)) > 0.501 or (key in ('cash_flow', 'transfers_net') and abs(want) > 0.5 and (got < 0) != (want < 0)):
                raise Violation(f'{name} reports {label.strip()} {got} but the analysis says {want}\n{txt[:700]}', case, 'figures-text')
    if txt_v is not None and 'CASH FLOW SUMMARY' in txt_v:
        tail = txt_v[txt_v.index('CASH FLOW SUMMARY'):]
        for label, key in [('Income:', 'income_total'), ('Spending:', 'spending_total'), ('Cash Flow:', 'cash_flow')]:
            got = num_after(re.escape(label), tail, case, 'print_sections_summary')
            if abs(abs(got) - abs(fig[key])) > 0.501:
                raise Violation(f'print_sections_summary reports {label} {got} but the analysis says {fig[key]}\n{tail[:500]}', case, 'figures-sections')

    # ---------------- the HTML data decodes to exactly what was analysed
    for what, data in (('embedded', decode_html(html, case)), ('separate', None)):
        if data is None:
            body = sep_data.strip()
            if not body.startswith('window.spendingData ='):
                raise Violation('spending_data.js does not start with window.spendingData =', case, 'html-data-script')
            try:
                data = json.loads(body[len('window.spendingData ='):].strip().rstrip(';'))
            except ValueError as e:
                raise Violation(f'spending_data.js does not decode: {e}', case, 'html-data-json')
        hmap = {'incomeTotal': 'income_total', 'spendingTotal': 'spending_total', 'creditsTotal': 'credits_total', 'cashFlow': 'cash_flow', 'transfersIn': 'transfers_in',
                'transfersOut': 'transfers_out', 'transfersNet': 'transfers_net', 'investmentTotal': 'investment_total'}
        for hk, sk in hmap.items():
            if data.get(hk) != fig[sk]:
                raise Violation(f'HTML data ({what}) {hk} = {data.get(hk)!r} but the analysis says {fig[sk]!r}', case, 'figures-html')
        seen = {}
        with_mi = False
        cat_total = 0.0
        tt = {'spending': 0.0, 'income': 0.0, 'investment': 0.0, 'transfer': 0.0}
        for cat in data['categoryView'].values():
            cat_total += cat['total']
            for k in tt:
                tt[k] += cat['typeTotals'][k]
            for sub in cat['subcategories'].values():
                for m in sub['merchants'].values():
                    seen.setdefault(m['displayName'], []).append(m)
        names = set(st_['by_merchant'])
        if set(seen) != names or any(len(v) != 1 for v in seen.values()):
            missing = sorted(names - set(seen))
            dup = sorted(k for k, v in seen.items() if len(v) != 1)
            raise Violation(f'HTML data ({what}) lists merchants {sorted(seen)} but the analysis has {sorted(names)} (missing {missing}, repeated {dup})', case, 'html-merchants')
        for name, bm in st_['by_merchant'].items():
            hm = seen[name][0]
            want = [(t['description'], t['amount'], t['month'], list(t['tags']), t['source'], jsonable(t.get('extra_fields'))) for t in bm['transactions']]
            got = [(t['description'], t['amount'], t['month'], list(t['tags']), t['source'], t.get('extra_fields')) for t in hm['transactions']]
            if sorted(map(repr, want)) != sorted(map(repr, got)):
                raise Violation(f'HTML data ({what}) transactions of {name!r} differ:\n analysed {want}\n report   {got}', case, 'html-transactions')
            mi = bm.get('match_info')
            if mi:
                # the explain tooltip data is not part of the statement: it only has to survive rendering (hostile patterns included); its layout is not asserted
                with_mi = True
        tol = 1e-6 * max(1.0, sum(abs(t['amount']) for t in txns))
        if abs(cat_total - st_['total_transactions']) > tol:
            raise Violation(f'HTML data ({what}): category totals add up to {cat_total}, analysed total is {st_["total_transactions"]}', case, 'html-category-sum')
        want_tt = {'income': fig['income_total'], 'investment': fig['investment_total'], 'transfer': fig['transfers_in'] + fig['transfers_out'], 'spending': fig['spending_total']}
        for k in tt:
            if abs(tt[k] - want_tt[k]) > tol:
                raise Violation(f'HTML data ({what}): typeTotals.{k} add up to {tt[k]}, analysed {want_tt[k]}', case, 'html-type-totals')
        if case['views']:
            for sec in data['sections'].values():
                for m in sec['merchants'].values():
                    if m['displayName'] not in names:
                        raise Violation(f'section merchant {m["displayName"]!r} unknown', case, 'html-sections')

    # ---------------- JSON export
    jm = {m['name']: m for m in jd['merchants']}
    if set(jm) != set(st_['by_merchant']) or len(jd['merchants']) != len(st_['by_merchant']):
        raise Violation(f'export_json lists merchants {sorted(jm)} but the analysis has {sorted(st_["by_merchant"])}', case, 'json-merchants')
    for name, bm in st_['by_merchant'].items():
        if abs(jm[name]['total'] - bm['total']) > 0.00501 or jm[name]['count'] != bm['count']:
            raise Violation(f'export_json merchant {name!r}: total/count {jm[name]["total"]}/{jm[name]["count"]} vs analysed {bm["total"]}/{bm["count"]}', case, 'json-merchant-figures')
    classes = set()
    no_special = all(not ({x.lower() for x in t['tags']} & set(SPECIAL)) for t in txns)
    single_sign = all(len({t['amount'] > 0 for t in txns if t['merchant'] == n and t['amount'] != 0}) <= 1 for n in st_['by_merchant'])
    if no_special and single_sign:
        classes.add('json_summary_asserted')
        s = jd['summary']
        if abs(s['gross_spending'] - fig['spending_total']) > 0.00501 or abs(s['credits_total'] - fig['credits_total']) > 0.00501 or s['income_total'] != 0:
            raise Violation(f'export_json summary {s} disagrees with the analysed figures {fig} although no merchant mixes signs and no special tags exist', case, 'figures-json')
    else:
        stats.excluded['json_summary_merchant_level(D-json-summary)'] += 1

    allstr = ' '.join([t['desc'] + t['merchant'] + ' '.join(t['tags']) + json.dumps(t['extra'], default=str) for t in case['txns']] + case['catnames'])
    if '</script' in allstr.lower():
        classes.add('hostile_script_close')
    if 'PLACEHOLDER' in allstr:
        classes.add('hostile_placeholder')
    ids = {}
    for n in st_['by_merchant']:
        ids.setdefault(n.replace("'", '').replace('"', '').replace(' ', '_'), []).append(n)
    if any(len(v) > 1 for v in ids.values()):
        classes.add('colliding_names')
    if '@date:' in allstr:
        classes.add('extra_field_date')
    if case['views']:
        classes.add('with_views')
    if any(bm['total'] < 0 for bm in st_['by_merchant'].values()):
        classes.add('negative_total')
    buckets = sum(1 for k in ('income_total', 'spending_total', 'credits_total', 'transfers_in', 'transfers_out', 'investment_total') if fig[k] > 0)
    nontrivial = len(st_['by_merchant']) >= 2 and bool(classes & {'hostile_script_close', 'hostile_placeholder', 'colliding_names'} or any(h in allstr for h in HOSTILE)) and buckets >= 2
    stats.case(jhash(case), nontrivial, classes, sample={'merchants': sorted(st_['by_merchant'])[:4], 'n': len(txns)} if len(stats.samples) < 3 else None)
    import shutil
    shutil.rmtree(d, ignore_errors=True)


def check_json_summary(case):
    """Known finding D-json-summary: export_json's summary block is computed from merchant-level nets."""
    from tally.analyzer import analyze_transactions, export_json
    txns = build_txns(case)
    st_ = analyze_transactions(txns)
    s = json.loads(export_json(st_))['summary']
    if abs(s['gross_spending'] - st_['spending_total']) > 0.00501 or abs(s['credits_total'] - st_['credits_total']) > 0.00501 or \
            abs(s['income_total'] - st_['income_total']) > 0.00501:
        raise Violation(f"export_json summary reports spending/credits/income {s['gross_spending']}/{s['credits_total']}/{s['income_total']} but every other format reports "
                        f"{st_['spending_total']}/{st_['credits_total']}/{st_['income_total']}", case, 'figures-json')


def replay(case):
    try:
        if case.get('kind') == 'json_summary':
            return check_json_summary(case)
        check(case, Stats())
    finally:
        obs.cleanup()


def _few_merchants(c):
    for t in c['txns']:
        t['merchant'] = PLAIN[len(t['merchant']) % 2]
        if t['tags'] and t['mo'] % 3:
            t['tags'] = []
    return dict(c, mixed=True)


mixed_st = st.fixed_dictionaries({'txns': st.lists(txn_st, min_size=2, max_size=5), 'views': st.booleans(), 'currency': st.sampled_from(CURRENCIES),
                                  'catnames': st.lists(text_st, min_size=4, max_size=4, unique=True)}).map(_few_merchants)


def shards(tier):
    n = 500 if tier == 'quick' else 4000
    return [('random', n)] * 15 + [('mixed', n)]


def run_shard(kind, n, seed, tier):
    s = Stats()
    try:
        campaign(mixed_st if kind == 'mixed' else case_st, check, n, seed, s, tier)
    finally:
        obs.cleanup()
    return s
