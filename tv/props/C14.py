"""C14 - Migrating merchant_categories.csv to merchants.rules preserves classification."""
from __future__ import annotations

import os
import re

from hypothesis import strategies as st

from tv import csvrules, lang, obs
from tv.harness import Stats, Violation, campaign, jhash, load_known

ID = 'C14'
LEVEL = 'exploration'
RULE = ('Generated legacy CSV rule files accepted by load_merchant_rules (header, comment/blank lines, 1-8 rows; regex patterns from a '
        'grammar with backslash classes, anchors, word boundaries, back-references, alternation, look-ahead, quantifiers, escaped '
        'metacharacters, quotes, brackets, doubled backslashes; every amount/date/month modifier form in combination; pipe-separated '
        'tags; tag-only rows; rows with neither category nor tags) x transactions whose descriptions derive from the patterns (match / '
        'near-miss), amounts on modifier constants +-{0,0.005,0.01,0.011}, dates on range ends, missing dates. Differential: side A = '
        'get_all_rules(csv)+normalize_merchant; side B = (i) parse_merchants(csv_to_merchants_content(load_merchant_rules(csv))) which '
        'must load, (ii) the same text written to merchants.rules and consumed through get_all_rules+normalize_merchant, (iii) '
        'load_csv_as_engine; merchant/category/subcategory/tags must agree on every transaction, and side A is anchored to the '
        'documented CSV semantics (regex search AND modifiers). Non-trivial = >=1 rule matches and the file has a backslash escape, a '
        'modifier or tags; distinct by hash.')
ASSUMPTIONS = ['names may carry surrounding blanks (both sides read them stripped since fix 5927850)',
               'patterns that the CSV side misroutes to the expression parser (known finding D-csv-heuristic) and [date:lastNdays] '
               '(known finding D-csv-relative: not expressible in the rule language) and tags holding a comma / brace / unbalanced parenthesis (known finding D-csv-tag-punctuation) are '
               'excluded by construction and counted']
REQUIRED_CLASSES = ['backslash_escape', 'quote_in_pattern', 'amount_eq_boundary', 'modifier_combo', 'tag_only_row', 'empty_row', 'missing_date_with_date_modifier']


@st.composite
def case_st(draw, relative=False):
    rules = draw(csvrules.csv_file(max_rules=8, escapes=True, quotes=True, relative=relative, tag_only_p=2))
    # the same pattern/merchant/category repeated with different modifiers (e.g. rent that changed during the year)
    if rules and draw(st.integers(0, 2)) == 0:
        src = draw(st.sampled_from(rules))
        twin = dict(src, mods=draw(st.lists(st.one_of(csvrules.amount_mod, csvrules.date_mod), min_size=1, max_size=2)))
        rules.insert(draw(st.integers(0, len(rules))), twin)
    # a row whose pattern Python's re rejects: the CSV loader accepts the file, the row never applies - before and after migration
    if draw(st.integers(0, 3)) == 0:
        bad = draw(st.sampled_from(['[', '*STARBUCKS', 'a{2,1}', 'AB)', 'a{4294967296}', 'X(?P<n', 'UBER(', '+1']))
        rules.insert(draw(st.integers(0, len(rules))), {'pattern': bad, 'mods': draw(st.lists(csvrules.amount_mod, max_size=1)), 'merchant': 'Broken Row', 'category': 'Broken',
                                                         'subcategory': '', 'tags': ['broken']})
    # rows with neither category nor tags (a no-op row in the CSV)
    if rules and draw(st.integers(0, 4)) == 0:
        i = draw(st.integers(0, len(rules) - 1))
        rules[i] = dict(rules[i], category='', tags=[])
    txns = []
    for _ in range(draw(st.integers(2, 5))):
        t = draw(lang.txn_case)
        if rules and draw(st.integers(0, 5)) > 0:
            r = draw(st.sampled_from(rules))
            for m in r['mods']:
                if m['k'] == 'amount':
                    base = draw(st.sampled_from([m.get('v', m.get('lo')), m.get('v', m.get('hi'))]))
                    t = dict(t, amount=round(base + draw(st.sampled_from([-0.011, -0.01, -0.005, 0, 0, 0.005, 0.009, 0.01, 0.011, -0.3, 0.3])), 4))
                elif m['k'] == 'date' and m['op'] in ('=', ':'):
                    t = dict(t, date=draw(st.sampled_from([m.get('d') or m['lo'], m.get('hi') or m['d'], None])))
                elif m['k'] == 'month':
                    t = dict(t, date=draw(st.sampled_from([f"2024-{m['m']:02d}-15", t['date'], None])))
                elif m['k'] == 'date' and m['op'] == 'rel':
                    t = dict(t, date=draw(st.sampled_from(['2000-06-01', '2900-01-01', None])))
            lits = [w for w in lang.WORDS if w.isalnum() and w in r['pattern']]
            wit = [d for a, ds in csvrules.WITNESS.items() if a in r['pattern'] for d in ds]
            extra = draw(st.lists(st.one_of(lang.word, st.sampled_from(['12345', '#1234', 'UBER UBER', 'aa', '"AMZN"', "'", '\\'] + wit + wit)), max_size=2))
            t = dict(t, description=lang.flip_case(' '.join(lits + extra) or 'UBER', draw(st.one_of(st.just(0), st.integers(0, 65535)))))
        txns.append(t)
    if draw(st.integers(0, 2)) == 0:
        # a recurring charge (identical description) inside and outside the month a month-only rule names, classified by ONE loaded rule set
        mth = draw(st.integers(1, 12))
        rules.insert(draw(st.integers(0, len(rules))), {'pattern': 'ZQMONTHLY', 'mods': [{'k': 'month', 'm': mth}], 'merchant': 'Monthly', 'category': draw(st.sampled_from(['Bills & Utilities', ''])),
                                                         'subcategory': 'Recurring', 'tags': ['in-month']})
        base = draw(lang.txn_case)
        pair = [dict(base, description='ZQMONTHLY FEE 77', date=f'2024-{mth:02d}-15'), dict(base, description='ZQMONTHLY FEE 77', date=f'2024-{(mth % 12) + 1:02d}-15')]
        txns = txns + (pair if draw(st.booleans()) else pair[::-1])
    if draw(st.integers(0, 2)) == 0:
        # a threshold with seven or more significant digits, and amounts on either side of it at the sixth digit
        v = draw(st.sampled_from([10000.01, 12345.67, 250000.25, 123456.78, 15250.755]))
        op = draw(st.sampled_from(['>=', '<=', '>', '<', '=']))
        rules.insert(draw(st.integers(0, len(rules))), {'pattern': 'ZQBIG', 'mods': [{'k': 'amount', 'op': op, 'v': v}], 'merchant': 'Big Ticket', 'category': 'Shopping', 'subcategory': 'Large',
                                                         'tags': ['big-ticket']})
        base = draw(lang.txn_case)
        txns = txns + [dict(base, description='ZQBIG PURCHASE', amount=a) for a in (v, float(f'{v:.6g}'), round(v - 0.01, 3), round(v + 0.01, 3))]
    return {'rules': rules, 'txns': txns}


def classify_known(r):
    if csvrules.looks_like_expression(r['pattern']) or r['pattern'].startswith('#'):
        return 'csv_pattern_looks_like_expression(D-csv-heuristic)'
    if any(m.get('op') == 'rel' for m in r['mods']):
        return 'relative_date_modifier(D-csv-relative)'
    if any(',' in t or '{' in t or '}' in t or t.count('(') != t.count(')') for t in r['tags']):
        return 'tag_with_comma_brace_or_unbalanced_parenthesis(D-csv-tag-punctuation)'
    return None


def check(case, stats: Stats):
    from tally.merchant_engine import csv_to_merchants_content, load_csv_as_engine, parse_merchants
    from tally.merchant_utils import get_all_rules, load_merchant_rules, normalize_merchant
    rules = []
    for r in case['rules']:
        k = classify_known(r)
        if k and not case.get('keep_known'):
            stats.excluded[k] += 1
        else:
            rules.append(r)
    text = csvrules.render_csv(rules)
    obs.clear_caches()
    path = obs.write_rules(text, 'merchant_categories.csv')
    d = os.path.dirname(path)
    try:
        csv_rules = load_merchant_rules(path)
    except Exception as e:
        raise Violation(f'load_merchant_rules raised {type(e).__name__}: {e}\n{text}', case, 'csv-load')
    if len(csv_rules) != len(rules):
        raise Violation(f'{len(rules)} CSV rows loaded as {len(csv_rules)} rules\n{text}', case, 'csv-count')
    # --- B (i): the generated file must load
    try:
        content = csv_to_merchants_content(csv_rules)
    except Exception as e:
        raise Violation(f'csv_to_merchants_content raised {type(e).__name__}: {e}\n{text}', case, 'convert-crash')
    try:
        eng = parse_merchants(content)
    except Exception as e:
        raise Violation(f'the generated merchants.rules does not load: {type(e).__name__}: {e}\n--- csv\n{text}\n--- generated\n{content}', case, 'generated-unloadable')
    rpath = os.path.join(d, 'merchants.rules')
    with open(rpath, 'w', encoding='utf-8') as f:
        f.write(content)
    try:
        eng3 = load_csv_as_engine(path)
    except Exception as e:
        raise Violation(f'load_csv_as_engine raised {type(e).__name__}: {e}\n{text}', case, 'csv-as-engine')
    classes = set()
    nontrivial = False
    for tc in case['txns']:
        txn = lang.mk_txn(tc)
        ref = csvrules.ref_classify(rules, txn)
        # --- side A
        obs.clear_caches()
        a_rules = get_all_rules(path)
        try:
            m, c, s, info = normalize_merchant(txn['description'], a_rules, amount=txn['amount'], txn_date=txn.get('date'), data_source=txn.get('source'))
        except Exception as e:
            raise Violation(f'CSV side raised {type(e).__name__}: {e} on {tc}\n{text}', case, 'csv-crash')
        a = (m if c != 'Unknown' else None, c, s, frozenset((info or {}).get('tags', [])))
        want = (ref['merchant'], ref['category'], ref['subcategory'], frozenset(ref['tags']))
        if a != want:
            raise Violation(f'CSV rules themselves: tally says {a}, the documented CSV semantics (regex search AND modifiers) say {want}\n{tc}\n{text}', case, 'csv-anchor')
        # --- side B
        outs = {}
        try:
            r1 = eng.match(dict(txn))
            outs['parse_merchants(csv_to_merchants_content)'] = (r1.merchant if r1.matched else None, r1.category if r1.matched else 'Unknown',
                                                                 (r1.subcategory if r1.matched else 'Unknown'), frozenset(r1.tags))
            obs.clear_caches()
            b_rules = get_all_rules(rpath)
            m2, c2, s2, info2 = normalize_merchant(txn['description'], b_rules, amount=txn['amount'], txn_date=txn.get('date'), data_source=txn.get('source'))
            outs['merchants.rules via get_all_rules+normalize_merchant'] = (m2 if c2 != 'Unknown' else None, c2, s2, frozenset((info2 or {}).get('tags', [])))
            r3 = eng3.match(dict(txn))
            outs['load_csv_as_engine'] = (r3.merchant if r3.matched else None, r3.category if r3.matched else 'Unknown', (r3.subcategory if r3.matched else 'Unknown'),
                                          frozenset(r3.tags))
        except Exception as e:
            raise Violation(f'migrated side raised {type(e).__name__}: {e} on {tc}\n--- csv\n{text}\n--- generated\n{content}', case, 'migrated-crash')
        for name, b in outs.items():
            if b != a:
                raise Violation(f'classification differs after migration ({name}):\n  CSV rules : {a}\n  migrated  : {b}\n{tc}\n--- csv\n{text}\n--- generated\n{content}', case,
                                'migration-differs')
        if ref['winner'] is not None or ref['tags']:
            if any('\\' in r['pattern'] or r['mods'] or r['tags'] for r in rules):
                nontrivial = True
        def _srch(pat, text_):
            try:
                return re.search(pat, text_, re.I)
            except (re.error, OverflowError):
                return None
        for r in rules:
            for mod in r['mods']:
                if mod['k'] == 'amount' and mod['op'] == '=' and 0 < abs(txn['amount'] - mod['v']) < 0.0101 and _srch(r['pattern'], txn['description']):
                    classes.add('amount_eq_boundary')
                if mod['k'] in ('date', 'month') and txn.get('date') is None and _srch(r['pattern'], txn['description']):
                    classes.add('missing_date_with_date_modifier')
    for r in rules:
        if r['merchant'] == 'Broken Row':
            classes.add('row_with_unusable_pattern')
        if '\\' in r['pattern']:
            classes.add('backslash_escape')
        if '"' in r['pattern'] or "'" in r['pattern']:
            classes.add('quote_in_pattern')
        if len(r['mods']) >= 2:
            classes.add('modifier_combo')
        if not r['category'] and r['tags']:
            classes.add('tag_only_row')
        if not r['category'] and not r['tags']:
            classes.add('empty_row')
    stats.case(jhash(case), nontrivial, classes, sample={'csv': text[:500], 'generated': content[:500]} if len(stats.samples) < 3 else None)


def replay(case):
    try:
        check(case, Stats())
    finally:
        obs.cleanup()


def shards(tier):
    n = 400 if tier == 'quick' else 3500
    return [('random', n)] * 16


def run_shard(kind, n, seed, tier):
    s = Stats()
    try:
        campaign(case_st(relative=True), check, n, seed, s, tier)
    finally:
        obs.cleanup()
    return s
