"""C07 - Classification depends only on current rules and the transaction, not history."""
from __future__ import annotations

import json
import os
import subprocess
import sys

import hypothesis
from hypothesis import settings, strategies as st
from hypothesis.stateful import RuleBasedStateMachine, initialize, precondition, rule, run_state_machine_as_test

from tv import csvrules, histops, lang, obs, rules as R
from tv.harness import TALLY_SRC, VERIF, HarnessError, Stats, Violation, hyp_settings, jhash

ID = 'C07'
LEVEL = 'exploration'
RULE = ('Hypothesis RuleBasedStateMachine over a per-history pool of 3-5 rule files (.rules and legacy CSV with overlapping names/'
        'patterns, one corrupt .rules file, same-path rewrites), 4 transactions, expression pairs that differ only in letter case '
        'inside string literals, and view filters. Operations: load(file, mode) = get_all_rules+get_transforms; classify(t) = '
        'normalize_merchant with the last loaded rules; engine_match(file, t); eval(expr, t, vars); eval_view; parse_csv; rewrite. '
        'Oracle: every result equals the result of {the last load, this operation} executed in a child forked from a pristine '
        'interpreter that imported tally and evaluated nothing; frame invariant: rule set, rows and transaction fields not assigned '
        'by transforms are unchanged by every operation. Non-trivial history = >=2 loads of different files followed by a '
        'classification; distinct by hash of the step list.')
ASSUMPTIONS = ['the fresh-process oracle is a fork of an interpreter that has only imported tally (no rule loaded, nothing evaluated)',
               'relative-date CSV modifiers are not generated (clock independence)']
REQUIRED_CLASSES = ['edit_and_reload', 'rules_then_csv', 'csv_then_rules', 'same_path_rewrite', 'failed_load_then_classify', 'case_variant_exprs', 'same_expr_different_vars']


class Server:
    def __init__(self):
        env = dict(os.environ, PYTHONPATH=VERIF + os.pathsep + os.environ.get('PYTHONPATH', ''), TALLY_SRC=TALLY_SRC, PYTHONHASHSEED='0')
        self.p = subprocess.Popen([sys.executable, '-m', 'tv.drv.forkserver'], stdin=subprocess.PIPE, stdout=subprocess.PIPE, text=True, bufsize=1, env=env, cwd=VERIF)
        if not self.p.stdout.readline():
            raise HarnessError('fork server did not start')

    def ask(self, load, op):
        self.p.stdin.write(json.dumps({'load': load, 'op': op}) + '\n')
        self.p.stdin.flush()
        line = self.p.stdout.readline()
        if not line:
            raise HarnessError('fork server died')
        return json.loads(line)

    def close(self):
        try:
            self.p.stdin.close()
            self.p.wait(timeout=5)
        except Exception:
            self.p.kill()


_server = None


def server():
    global _server
    if _server is None:
        _server = Server()
    return _server


EXPR_PAIRS = [
    ('split("x", 0)', 'split("X", 0)'), ('regex("REF:\\d+")', 'regex("REF:\\D+")'), ('"Food" if amount > 1 else "x"', '"FOOD" if amount > 1 else "X"'),
    ('description.replace("UBER", "u")', 'description.replace("uber", "U")'), ('extract("(uber)")', 'extract("(UBER)")'),
    ('regex_replace(description, "\\s+", "a")', 'regex_replace(description, "\\S+", "A")'), ('field.memo', 'FIELD.MEMO'),
    ('contains("uber") and label == "x"', 'CONTAINS("UBER") and LABEL == "X"'), ('threshold > 5', 'Threshold > 5'),
    ('strip_prefix(description, "uber")', 'strip_prefix(description, "UBER ")'), ('"a" + "B"', '"A" + "b"'),
    ('substring(0, 4).lower()', 'SUBSTRING(0, 4).upper()'), ('description.endswith("s")', 'description.endswith("S")'),
    ('regex("^\\D+$")', 'regex("^\\d+$")'), ('regex("\\W")', 'regex("\\w")'), ('regex("\\S")', 'regex("\\s")'), ('extract("(\\w+)")', 'extract("(\\W+)")'),
    ('regex(field.memo, "\\D")', 'regex(field.memo, "\\d")'),
    # a name bound by := in one evaluation must not be visible to the next one (it may shadow variables, let bindings, primitives)
    ('(net := abs(amount)) > 100', 'net > 100'), ('(label := "zz") == "zz"', 'label == "x"'), ('(threshold := 0) == 0', 'amount > threshold'),
    ('[(last := r.amount) for r in orders]', 'last'), ('(amount := 5) == 5', 'amount'), ('(orders := 1) == 1', 'len(orders)'),
    ('date >= "2024-01-01"', 'date == "2024-03-05"'),
    # an expression that cannot be evaluated (bad regular expression) cannot be evaluated the second time either
    # the same text and pattern at a rising threshold: how similar two strings are does not depend on who asked before
    ('fuzzy("SQ *STARBUCKS #1234", "STARBUCKS", 0.8)', 'fuzzy("sq *starbucks #1234", "starbucks", 0.95)'), ('fuzzy("ETFLIX")', 'fuzzy("ETFLIX", 0.97)'),
    ('fuzzy(field.memo, "EF 1", 0.7)', 'fuzzy(field.memo, "EF 1", 1.0)'), ('fuzzy("TARBUCK", 0.5)', 'fuzzy("TARBUCK", 0.9)'),
    # the same comparison text meets a date on one row and text on another (a date cell the loader could not parse): the literal stays what was written
    ('len([r for r in orders if r.date >= "2024-01-01"])', 'len([r for r in orders if r.date >= "2024-01-01"])'),
    ('[r.item for r in orders if "2024-06-01" <= r.date]', '[r.item for r in orders if "2024-06-01" <= r.date]'),
    ('any(r.date == "2024-03-05" for r in orders)', 'any(r.date == "2024-03-05" for r in receipts)'),
    # a name is looked up afresh each time: a variable named like a supplemental source shadows it where it is defined, and only there
    ('len(orders) > 0', 'len(orders) > 0'), ('len([r for r in orders]) == 0 or label == "x"', 'any(True for r in orders)'), ('len(receipts) + len(orders)', 'len(orders)'),
    ('not regex("SAMS(CLUB")', 'regex("SAMS(CLUB") or contains("e")'), ('extract("A(B") == ""', 'not regex("[a-")'), ('regex("SAMS(CLUB")', 'not regex("SAMS(CLUB")'),
]
SHADOW = {'label': 'x', 'threshold': 9, 'orders': []}
VARS_RULES = '''is_wire = field.type == "WIRE"
has_ref = contains(field.memo, "REF")
recent = date >= "2020-01-01"
first_order = orders[0].amount > 0

[Wire]
match: is_wire
category: Transfers
tags: wire

[With Ref]
match: has_ref and amount != 0
category: Bills
subcategory: Referenced

[Recent Netflix]
match: recent and contains("NETFLIX")
category: Subscriptions

[Has Orders]
match: first_order
tags: ordered
'''
VIEW_FILTERS = ['total > 100', 'months >= 2', 'category == "food"', 'sum(payments) > Threshold', 'max(sum(by("month"))) > 50', 'cv < 0.5', '"Recurring" in tags']
FMT = '{date:%Y-%m-%d},{description},{amount},{memo},{type}'


@st.composite
def file_pool(draw):
    """3-5 files; overlapping rule names / patterns so that stale state is visible."""
    files = []
    n_files = draw(st.integers(3, 5))
    for i in range(n_files):
        kind = draw(st.sampled_from(['rules', 'rules', 'csv', 'corrupt', 'edited']))
        prev = [f for f in files if f.get('rf') and f['rf']['rules']]
        if i == n_files - 1 and prev and not any(f.get('edited') is not None for f in files):
            kind = 'edited'  # every pool with a rules file also has an edited copy of one
        if kind == 'edited' and prev:
            # "the user edited the file": a copy of an earlier file in which ONE attribute of one rule changed (its name and match text stay) - whatever
            # the process remembers about a rule by name / expression must not survive the reload
            base_f = draw(st.sampled_from(prev))
            base = base_f['rf']
            k = draw(st.integers(0, len(base['rules']) - 1))
            r = dict(base['rules'][k])
            what = draw(st.sampled_from(['priority', 'priority', 'category', 'subcategory', 'tags', 'merchant', 'position']))
            if what == 'priority':
                r['priority'] = draw(st.sampled_from([p for p in (None, 0, 10, 90, 100) if p != r.get('priority')]))
            elif what == 'category':
                r['category'] = 'Edited Category' if r['category'] else r['category']
            elif what == 'subcategory':
                r['subcategory'] = 'Edited Sub'
            elif what == 'tags':
                r['tags'] = list(r['tags']) + ['edited']
            elif what == 'merchant':
                r['merchant'] = 'Edited Merchant'
            rules2 = list(base['rules'])
            rules2[k] = r
            if what == 'position':
                rules2.append(rules2.pop(k))
            rf = dict(base, rules=rules2)
            files.append({'kind': 'rules', 'name': f'f{i}.rules', 'text': R.render_file(rf), 'rf': rf, 'edited': files.index(base_f)})
        elif kind in ('rules', 'edited'):
            rf = draw(R.rule_file(max_rules=5, depth=1))
            files.append({'kind': 'rules', 'name': f'f{i}.rules', 'text': R.render_file(rf), 'rf': rf})
        elif kind == 'csv':
            rules = [r for r in draw(csvrules.csv_file(max_rules=5, escapes=True)) if not csvrules.looks_like_expression(r['pattern']) and not r['pattern'].startswith('#')]
            files.append({'kind': 'csv', 'name': f'f{i}.csv', 'text': csvrules.render_csv(rules)})
        else:
            files.append({'kind': 'corrupt', 'name': f'f{i}.rules',
                          'text': draw(st.sampled_from(['[Broken]\ncategory: X\n', '[A]\nmatch: contains("UBER"\ncategory: X\n', '[A]\nmatch: True\nbogus: 1\ncategory: X\n',
                                                        'Pattern,Merchant,Category,Subcategory\nUBER,Uber,Transport,Ride\n']))})
    return files


@st.composite
def world(draw):
    files = draw(file_pool())
    rfs = [f['rf'] for f in files if f.get('rf')]
    txns = [draw(R.txn_for(draw(st.sampled_from(rfs)))) if rfs and draw(st.integers(0, 3)) > 0 else draw(lang.txn_case) for _ in range(4)]
    return files, txns


class History(RuleBasedStateMachine):
    def __init__(self):
        super().__init__()
        self.state = histops.new_state()
        self.steps = []
        self.files = None
        self.dir = None
        self.classes = set()
        self.loads = []
        obs.clear_caches()

    # ---- helpers
    def case(self):
        return {'files': [{k: v for k, v in f.items() if k != 'rf'} for f in self.files], 'txns': self.txns, 'rows': self.rows, 'steps': self.steps}

    def path(self, i):
        return os.path.join(self.dir, self.files[i % len(self.files)]['name'])

    def compare(self, op):
        got = histops.do_op(self.state, op, frame=True)
        exp = server().ask(self.state['loaded'], op)
        fv = got.pop('frame_violation', None)
        if fv:
            raise Violation(f'{fv}\nhistory: {json.dumps(self.steps)[:1500]}', self.case(), 'frame')
        if got != exp:
            raise Violation(f'after this history the operation {json.dumps(op)[:400]} gives\n  {json.dumps(got)[:500]}\nbut in a fresh process (same last load {self.state["loaded"]}) it gives\n  '
                            f'{json.dumps(exp)[:500]}\nhistory: {json.dumps(self.steps)[:1500]}', self.case(), 'history-dependence')

    # ---- setup
    @initialize(w=world(), rows=lang.rows_case, text_date=st.sampled_from([None, None, 'first', 'last']))
    def setup(self, w, rows, text_date):
        files, txns = w
        if text_date:
            # a supplemental row whose date cell could not be parsed keeps it as text, next to a properly dated row
            extra = [{'item': 'Late Item', 'amount': 5.0, 'date': 'pending', 'qty': 1}, {'item': 'Dated Item', 'amount': 6.0, 'date': '2024-07-01', 'qty': 1}]
            rows = dict(rows, orders=(extra + rows['orders']) if text_date == 'first' else (rows['orders'] + extra[::-1]))
        # one file whose top-level variables depend on custom fields, and transactions with / without those fields:
        # what a variable evaluates to for one transaction must not affect the next
        files = files + [{'kind': 'rules', 'name': 'vars.rules', 'text': VARS_RULES}]
        txns = [dict(txns[0], field=None), dict(txns[1], field={'type': 'WIRE', 'memo': 'REF 1', 'code': 'x', 'vendor': 'y'}, description='NETFLIX ' + txns[1]['description']),
                dict(txns[2], date=None)] + txns[3:]
        # twins: the same description bought somewhere else / on another card - whatever is remembered per description must not leak between them
        alt_loc = [l for l in lang.LOCATIONS if l != txns[3].get('location')][0]
        alt_src = [x for x in lang.SOURCES if x != txns[1].get('source')][0]
        txns = txns + [dict(txns[3], location=alt_loc), dict(txns[1], source=alt_src)]
        self.files, self.txns, self.rows = files, txns, rows
        self.dir = obs.write_rules('x', 'placeholder')[:-len('/placeholder')]
        for f in files:
            with open(os.path.join(self.dir, f['name']), 'w', encoding='utf-8') as fh:
                fh.write(f['text'])
        with open(os.path.join(self.dir, 'data.csv'), 'w', encoding='utf-8') as fh:
            fh.write('Date,Description,Amount,Memo,Type\n')
            for t in txns:
                if t['date'] and '\n' not in t['description'] and ',' not in t['description'] and '"' not in t['description']:
                    f = t['field'] or {}
                    fh.write(f"{t['date']},{t['description']},{t['amount']!r},{f.get('memo', '').replace(',', ' ')},{f.get('type', '').replace(',', ' ')}\n")

    # ---- operations
    @rule(i=st.integers(0, 5), mode=st.sampled_from(['first_match', 'first_match', 'most_specific']), order=st.sampled_from(['rules_first', 'transforms_first', 'transforms_first']))
    def load(self, i, mode, order):
        i %= len(self.files)
        self.steps.append(['load', i, mode, order])
        res = histops.do_load(self.state, self.path(i), mode, order)
        kind = self.files[i]['kind']
        if self.loads:
            prev = self.loads[-1]
            if prev[0] == 'rules' and kind == 'csv':
                self.classes.add('rules_then_csv')
            if prev[0] == 'csv' and kind == 'rules':
                self.classes.add('csv_then_rules')
        self.loads.append((kind, i))

    @precondition(lambda self: self.files is not None)
    @rule(i=st.integers(0, 4), data=st.data())
    def rewrite(self, i, data):
        i %= len(self.files)
        f = self.files[i]
        if f['kind'] == 'csv':
            rules = [r for r in data.draw(csvrules.csv_file(max_rules=4)) if not csvrules.looks_like_expression(r['pattern']) and not r['pattern'].startswith('#')]
            text = csvrules.render_csv(rules)
        else:
            text = R.render_file(data.draw(R.rule_file(max_rules=4, depth=1)))
        self.files = [dict(x) for x in self.files]
        self.files[i].setdefault('text0', self.files[i]['text'])
        self.files[i]['text'] = text
        if f['kind'] == 'corrupt':
            self.files[i]['kind'] = 'rules'
        self.steps.append(['rewrite', i, text])
        with open(self.path(i), 'w', encoding='utf-8') as fh:
            fh.write(text)
        # the user re-runs: the file is loaded again
        order = data.draw(st.sampled_from(['rules_first', 'transforms_first', 'transforms_first']))
        self.steps.append(['load', i, 'first_match', order])
        histops.do_load(self.state, self.path(i), 'first_match', order)
        self.loads.append((self.files[i]['kind'], i))
        self.classes.add('same_path_rewrite')

    @precondition(lambda self: self.state['loaded'] is not None)
    @rule(t=st.integers(0, 5), with_rows=st.sampled_from([True, True, False]))
    def classify(self, t, with_rows=True):
        # (a call WITHOUT supplemental rows after one with them: what the engine was given before is no part of this call)
        self.steps.append(['classify', t] if with_rows else ['classify', t, False])
        if len({i for _, i in self.loads}) >= 2:
            self.classes.add('nontrivial')
        if self.loads and self.loads[-1][0] == 'corrupt':
            self.classes.add('failed_load_then_classify')
        self.compare({'k': 'classify', 'txn': self.txns[t % len(self.txns)], 'rows': self.rows if with_rows else None})

    @precondition(lambda self: self.files is not None and any(f.get('edited') is not None for f in self.files))
    @rule(pick=st.integers(0, 9), mode=st.sampled_from(['first_match', 'most_specific', 'most_specific']))
    def edit_and_reload(self, pick, mode):
        """the everyday history: classify with a file, edit one attribute of one rule, reload, classify again"""
        edited = [j for j, f in enumerate(self.files) if f.get('edited') is not None]
        j = edited[pick % len(edited)]
        self.load(i=self.files[j]['edited'], mode=mode, order='rules_first')
        for t in range(len(self.txns)):
            self.classify(t=t)
        self.load(i=j, mode=mode, order='rules_first')
        for t in range(len(self.txns)):
            self.classify(t=t)
        self.classes.add('edit_and_reload')

    @precondition(lambda self: self.files is not None)
    @rule(i=st.integers(0, 5), t=st.integers(0, 5), mode=st.sampled_from(['first_match', 'most_specific']))
    def engine_match(self, i, t, mode):
        i %= len(self.files)
        if self.files[i]['kind'] != 'rules':
            return
        self.steps.append(['engine', i, t, mode])
        self.compare({'k': 'engine', 'path': self.path(i), 'mode': mode, 'txn': self.txns[t % len(self.txns)], 'rows': self.rows})

    @precondition(lambda self: self.files is not None)
    @rule(i=st.integers(0, 5), t=st.integers(0, 5))
    def reparse_and_match(self, i, t):
        """One long-lived MerchantEngine object re-parses another file's text, then matches."""
        i %= len(self.files)
        if self.files[i]['kind'] == 'csv':
            return
        self.steps.append(['reparse', i, t])
        self.classes.add('engine_object_reparse')
        got = reparse_op(self, self.files[i]['text'], self.txns[t % len(self.txns)], self.rows)
        exp = server().ask(None, {'k': 'parse_text', 'text': self.files[i]['text'], 'txn': self.txns[t % len(self.txns)], 'rows': self.rows})
        if got != exp:
            raise Violation(f'a MerchantEngine that had parsed other files before gives {json.dumps(got)[:400]} for file {i}, a fresh engine gives {json.dumps(exp)[:400]}\n'
                            f'history: {json.dumps(self.steps)[:1200]}', self.case(), 'history-dependence')

    @precondition(lambda self: self.files is not None)
    @rule(p=st.integers(0, len(EXPR_PAIRS) - 1), which=st.integers(0, 1), t=st.integers(0, 5), v=st.sampled_from([{'label': 'x', 'threshold': 9}, {'label': 'UBER', 'threshold': 1}, None, SHADOW]))
    def eval_expr(self, p, which, t, v):
        self.steps.append(['eval', p, which, t, v])
        prior = [s for s in self.steps[:-1] if s[0] == 'eval' and s[1] == p]
        if any(s[2] != which for s in prior):
            self.classes.add('case_variant_exprs')
        if any(s[2] == which and s[4] != v for s in prior):
            self.classes.add('same_expr_different_vars')
        self.compare({'k': 'eval', 'src': EXPR_PAIRS[p][which], 'txn': self.txns[t % len(self.txns)], 'vars': v, 'rows': self.rows})

    @precondition(lambda self: self.files is not None)
    @rule(p=st.integers(0, len(EXPR_PAIRS) - 1), first=st.integers(0, 1), t=st.integers(0, 5), v=st.sampled_from([{'label': 'x', 'threshold': 9}, None]), v2=st.sampled_from([0, 0, 1]))
    def eval_pair(self, p, first, t, v, v2):
        """both members of a pair, back to back, for the same transaction (the second time possibly with a variable named like a supplemental source)"""
        self.eval_expr(p, first, t, v)
        self.eval_expr(p, 1 - first, t, SHADOW if v2 else v)

    @precondition(lambda self: self.files is not None)
    @rule(e=lang.bool_expr(2), t=st.integers(0, 5))
    def eval_generated(self, e, t):
        src = lang.render(e)
        self.steps.append(['evalsrc', src, t])
        self.compare({'k': 'eval', 'src': src, 'txn': self.txns[t % len(self.txns)], 'vars': {'label': 'x', 'threshold': 9, 'is_large': True}, 'rows': self.rows})

    @precondition(lambda self: self.files is not None)
    @rule(f=st.sampled_from(VIEW_FILTERS), pays=st.lists(st.tuples(st.integers(-5000, 50000).map(lambda c: c / 100.0), st.integers(0, 11), st.integers(0, 27)).map(list), min_size=1, max_size=5),
          v=st.sampled_from([{'threshold': 100}, {'threshold': 100000}]))
    def eval_view(self, f, pays, v):
        self.steps.append(['view', f, pays, v])
        self.compare({'k': 'view', 'src': f, 'payments': pays, 'category': 'Food', 'tags': ['recurring'], 'vars': v})

    @precondition(lambda self: self.state['loaded'] is not None)
    @rule()
    def parse_csv(self):
        self.steps.append(['parse_csv'])
        self.compare({'k': 'parse_csv', 'data': os.path.join(self.dir, 'data.csv'), 'fmt': FMT, 'source': 'Amex', 'rows': self.rows})

    def teardown(self):
        if self.files is not None and _stats is not None:
            _stats.case(jhash(self.steps), 'nontrivial' in self.classes, self.classes - {'nontrivial'} | {f'steps_{min(len(self.steps) // 10, 4)}x'},
                        sample={'files': [f['name'] for f in self.files], 'steps': [s[:3] for s in self.steps[:12]]})


_stats = None


def reparse_op(holder, text, tc, rows):
    from tally.merchant_engine import MerchantEngine
    eng = getattr(holder, 'engine_obj', None)
    if eng is None:
        eng = holder.engine_obj = MerchantEngine()
    return histops.parse_text_op(eng, text, tc, rows)


def run_history(case):
    """Plain replay of a recorded history (no Hypothesis)."""
    obs.clear_caches()
    state = histops.new_state()
    d = obs.write_rules('x', 'placeholder')[:-len('/placeholder')]
    files = [dict(f) for f in case['files']]
    # files as they were at the START of the history: rewrites are replayed
    orig = {i: f for i, f in enumerate(files)}
    first_text = {}
    for s in case['steps']:
        if s[0] == 'rewrite' and s[1] not in first_text:
            first_text[s[1]] = True
    for i, f in orig.items():
        with open(os.path.join(d, f['name']), 'w', encoding='utf-8') as fh:
            fh.write(f.get('text0', f['text']))
    with open(os.path.join(d, 'data.csv'), 'w', encoding='utf-8') as fh:
        fh.write('Date,Description,Amount,Memo,Type\n')
        for t in case['txns']:
            if t['date'] and '\n' not in t['description'] and ',' not in t['description'] and '"' not in t['description']:
                f = t['field'] or {}
                fh.write(f"{t['date']},{t['description']},{t['amount']!r},{f.get('memo', '').replace(',', ' ')},{f.get('type', '').replace(',', ' ')}\n")
    path = lambda i: os.path.join(d, files[i]['name'])

    class Holder:
        pass
    holder = Holder()

    def compare(op):
        got = histops.do_op(state, op, frame=True)
        exp = server().ask(state['loaded'], op)
        fv = got.pop('frame_violation', None)
        if fv:
            raise Violation(fv, case, 'frame')
        if got != exp:
            raise Violation(f'operation {json.dumps(op)[:300]} gives {json.dumps(got)[:400]} after the history but {json.dumps(exp)[:400]} in a fresh process', case, 'history-dependence')

    for s in case['steps']:
        if s[0] == 'load':
            histops.do_load(state, path(s[1]), s[2], s[3] if len(s) > 3 else 'rules_first')
        elif s[0] == 'rewrite':
            with open(path(s[1]), 'w', encoding='utf-8') as fh:
                fh.write(s[2])
        elif s[0] == 'classify':
            compare({'k': 'classify', 'txn': case['txns'][s[1]], 'rows': case['rows'] if (len(s) < 3 or s[2]) else None})
        elif s[0] == 'engine':
            compare({'k': 'engine', 'path': path(s[1]), 'mode': s[3], 'txn': case['txns'][s[2]], 'rows': case['rows']})
        elif s[0] == 'eval':
            compare({'k': 'eval', 'src': EXPR_PAIRS[s[1]][s[2]], 'txn': case['txns'][s[3]], 'vars': s[4], 'rows': case['rows']})
        elif s[0] == 'evalsrc':
            compare({'k': 'eval', 'src': s[1], 'txn': case['txns'][s[2]], 'vars': {'label': 'x', 'threshold': 9, 'is_large': True}, 'rows': case['rows']})
        elif s[0] == 'view':
            compare({'k': 'view', 'src': s[1], 'payments': s[2], 'category': 'Food', 'tags': ['recurring'], 'vars': s[3]})
        elif s[0] == 'parse_csv':
            compare({'k': 'parse_csv', 'data': os.path.join(d, 'data.csv'), 'fmt': FMT, 'source': 'Amex', 'rows': case['rows']})
        elif s[0] == 'reparse':
            text = open(path(s[1]), encoding='utf-8').read()
            got = reparse_op(holder, text, case['txns'][s[2]], case['rows'])
            exp = server().ask(None, {'k': 'parse_text', 'text': text, 'txn': case['txns'][s[2]], 'rows': case['rows']})
            if got != exp:
                raise Violation(f'a re-used MerchantEngine gives {json.dumps(got)[:400]}, a fresh engine {json.dumps(exp)[:400]}', case, 'history-dependence')


def replay(case):
    global _server
    try:
        run_history(case)
    finally:
        if _server is not None:  # never leave a server open in the parent: forked workers would share its pipes
            _server.close()
            _server = None
        obs.cleanup()


def shards(tier):
    n = 60 if tier == 'quick' else 600
    return [('history', n)] * 16


def run_shard(kind, n, seed, tier):
    global _stats, _server
    s = Stats()
    _stats = s
    holder = {}
    steps = 25 if tier == 'quick' else 40

    class M(History):
        pass

    orig_compare = History.compare

    try:
        try:
            run_state_machine_as_test(hypothesis.seed(seed)(M), settings=settings(parent=hyp_settings(n, tier, shrink=(tier == 'thorough')), stateful_step_count=steps))
        except Violation as v:
            # the case recorded by the machine holds the files as they are AFTER rewrites; keep original texts for replay
            s.violation(v)
        except hypothesis.errors.Flaky as e:
            raise HarnessError(f'flaky history machine: {e}')
    finally:
        if _server is not None:
            _server.close()
            _server = None
        obs.cleanup()
        _stats = None
    return s
