"""C15 - An interrupted or failing migration never loses rules or strands the budget."""
from __future__ import annotations

import json
import os
import re
import tempfile

from hypothesis import strategies as st

from tv import csvrules, lang, obs
from tv.drv import cli, faultfs
from tv.harness import HarnessError, Stats, Violation, campaign, jhash

ID = 'C15'
LEVEL = 'fault_enumeration'
RULE = ('Generated budgets from a finite family of shapes (old / new layout; settings with/without trailing newline; legacy CSV with '
        'generated migration-safe rules; pre-existing merchants.rules / .bak / tally directory; data, output, views present or not) x the '
        'three migration entry points: `tally up --migrate`, `tally init` (auto migration), run_migrations(find_config_dir(), '
        'skip_confirm=True) (layout v0->v1). A dry run in a forked child records the N file-system effects (open-for-write, write, close, '
        'move, makedirs, rename); then for EVERY effect k and every mode in {crash before the effect, crash with the in-flight file '
        'half-written, OSError raised by the effect} the command is re-run in a fresh forked child on a fresh copy and the parent '
        'inspects the real directory tree: (1) no user file content lost, settings only gain a suffix; (2) `tally up` classifies every '
        'transaction as the baseline did, immediately or after re-running the same command once without faults; (3) `up` never '
        'runs with an empty rule set while the user\'s rules exist on disk. Every (entry point, shape, k, mode) tuple is distinct; '
        'non-trivial = 1 <= k < N (a genuinely intermediate state). All prefixes of each generated budget are enumerated.')
ASSUMPTIONS = ['a crash is a prefix of ordered effects with a torn write on the in-flight file; page-cache reordering and cross-device moves are not modelled',
               'shutil.move of a file or directory is one atomic effect (same file system)',
               'legacy CSV rules are generated migration-safe (no known-finding classes of C14), so a completed migration preserves classification']
REQUIRED_CLASSES = ['entry_up_migrate', 'entry_init', 'entry_layout', 'mode_crash', 'mode_partial', 'mode_oserror', 'intermediate_prefix']
ALL_EXHAUSTIVE = False

SETTINGS = 'year: 2024\ndata_sources:\n  - name: Bank\n    file: data/bank.csv\n    format: "{date:%Y-%m-%d},{description},{amount}"\n'

shape_st = st.fixed_dictionaries({
    'entry': st.sampled_from(['up_migrate', 'up_migrate', 'init', 'layout']),
    'layout': st.sampled_from(['old', 'new']),
    'trailing_newline': st.booleans(), 'existing_rules': st.sampled_from([False, False, True]), 'existing_bak': st.booleans(), 'existing_baks': st.sampled_from([[], [], [], ['.bak2'], ['.bak3'], ['.bak2', '.bak3']]), 'existing_tally_dir': st.sampled_from([False, False, True, True, 'output', 'data']),
    'views': st.booleans(), 'output': st.booleans(), 'notes': st.booleans(),
    # a legacy folder that has rules and statements but no settings.yaml yet (`tally init` is what creates one)
    'settings': st.sampled_from(['present', 'present', 'present', 'present', 'absent']),
})


@st.composite
def case_st(draw):
    shape = draw(shape_st)
    if shape['entry'] == 'layout':
        shape = dict(shape, layout='old')
    if shape['entry'] != 'init':
        shape = dict(shape, settings='present')
    if shape['settings'] == 'absent':
        # without settings nothing says which of two rule files is in use: keep the CSV the only one
        shape = dict(shape, existing_rules=False)
    rules = [r for r in draw(csvrules.csv_file(max_rules=4, escapes=True, quotes=True)) if not csvrules.looks_like_expression(r['pattern']) and not r['pattern'].startswith('#')
             and r['category']]
    rules = [dict(r, mods=[m for m in r['mods'] if m['k'] == 'amount']) for r in rules]
    rules.append({'pattern': 'NETFLIX', 'mods': [], 'merchant': 'Netflix', 'category': 'Subscriptions', 'subcategory': 'Streaming', 'tags': ['recurring']})
    descs = ['NETFLIX.COM', 'UBER EATS', 'COFFEE SHOP'] + draw(st.lists(st.lists(lang.word, min_size=1, max_size=3).map(' '.join), min_size=1, max_size=4))
    return {'shape': shape, 'rules': rules, 'descs': descs}


def build(case, root):
    """Write the budget under `root` (a directory)."""
    shape = case['shape']
    base = root if shape['layout'] == 'old' else os.path.join(root, 'tally')

    def w(rel, text):
        p = os.path.join(base, rel)
        os.makedirs(os.path.dirname(p), exist_ok=True)
        with open(p, 'w', encoding='utf-8', newline='') as f:
            f.write(text)
    if shape.get('settings', 'present') == 'present':
        w('config/settings.yaml', SETTINGS if shape['trailing_newline'] else SETTINGS.rstrip('\n'))
    w('config/merchant_categories.csv', csvrules.render_csv(case['rules']))
    if shape['existing_rules']:
        w('config/merchants.rules', '# hand-written, not referenced yet\n[Mine]\nmatch: contains("MINE")\ncategory: Mine\n')
    if shape['existing_bak']:
        w('config/merchant_categories.csv.bak', 'Pattern,Merchant,Category,Subcategory\nOLDBACKUP,Old,Misc,Old\n')
    for suf in shape.get('existing_baks') or []:
        # earlier backups need not be numbered contiguously
        w('config/merchant_categories.csv' + suf, f'Pattern,Merchant,Category,Subcategory\nOLDER BACKUP {suf},Old,Misc,Old\n')
    if shape['views']:
        w('config/views.rules', '[Subs]\nfilter: category == "Subscriptions"\n')
    if shape['notes']:
        w('config/NOTES.md', 'notes\n')
    w('data/bank.csv', 'Date,Description,Amount\n' + ''.join(f'2024-0{1 + i % 9}-1{i % 9},{d.replace(",", " ")},{10 + i}.25\n' for i, d in enumerate(case['descs'])))
    if shape['output']:
        w('output/old.html', '<html>old</html>')
    if shape['existing_tally_dir'] and shape['layout'] == 'old':
        os.makedirs(os.path.join(root, 'tally'), exist_ok=True)
        with open(os.path.join(root, 'tally', 'README.txt'), 'w') as f:
            f.write('unrelated\n')
        # ./tally already holds a data/ or output/ directory with a file of the SAME NAME as one about to be moved there (other bytes):
        # neither copy may be lost
        if shape['existing_tally_dir'] == 'output':
            os.makedirs(os.path.join(root, 'tally', 'output'), exist_ok=True)
            with open(os.path.join(root, 'tally', 'output', 'old.html'), 'w') as f:
                f.write('<html>an earlier report kept under ./tally</html>')
        if shape['existing_tally_dir'] == 'data':
            os.makedirs(os.path.join(root, 'tally', 'data'), exist_ok=True)
            with open(os.path.join(root, 'data', 'bank.csv'), encoding='utf-8', newline='') as f:
                same_rows = f.read()
            with open(os.path.join(root, 'tally', 'data', 'bank.csv'), 'w', encoding='utf-8', newline='') as f:
                f.write(same_rows.replace('\n', '\r\n'))  # the same transactions, exported with other line endings


def snapshot(root):
    snap = {}
    for d, dirs, files in os.walk(root):
        for n in files:
            p = os.path.join(d, n)
            with open(p, 'rb') as f:
                snap[os.path.relpath(p, root)] = f.read()
    return snap


def run_entry(entry, root, shape):
    """Run the migration entry point (in the current process)."""
    if entry == 'up_migrate':
        return cli.run(['up', '--migrate', '-q', '--format', 'summary'], cwd=root)
    if entry == 'init':
        return cli.run(['init'], cwd=root)
    old = os.getcwd()
    try:
        os.chdir(root)
        import contextlib
        import io
        from tally.cli import find_config_dir, run_migrations
        with contextlib.redirect_stdout(io.StringIO()), contextlib.redirect_stderr(io.StringIO()):
            run_migrations(find_config_dir(), skip_confirm=True)
    finally:
        os.chdir(old)


def run_in_child(entry, root, shape, k, mode, log_path=None):
    pid = os.fork()
    if pid == 0:
        code = 0
        try:
            logfd = os.open(log_path, os.O_WRONLY | os.O_CREAT | os.O_TRUNC) if log_path else None
            faultfs.install(root, k, mode, logfd)
            try:
                run_entry(entry, root, shape)
            except BaseException:  # noqa - the command died of the injected fault: that is an outcome, the tree is what matters
                code = 3
        finally:
            os._exit(code)
    _, status = os.waitpid(pid, 0)
    return os.WEXITSTATUS(status) if os.WIFEXITED(status) else -1


BANK_ENTRY = '  - name: Bank\n    file: data/bank.csv\n    format: "{date:%Y-%m-%d},{description},{amount}"\n'


def classify_tree(root, shape=None, baseline=False):
    """What `tally up` reports on this tree: {merchant: (category, subcategory, count)} or ('error', text).
    For a folder generated WITHOUT settings.yaml the report is taken on a copy in which the user's next step is done: the statement is entered
    as a data source in whatever settings.yaml exists by then (the one `tally init` wrote, or a minimal one)."""
    if shape is not None and shape.get('settings', 'present') == 'absent':
        import shutil
        copy_root = tempfile.mkdtemp(prefix='c15c_', dir=obs.tmpdir())
        try:
            shutil.copytree(root, os.path.join(copy_root, 'b'), symlinks=True)
            croot = os.path.join(copy_root, 'b')
            found = [os.path.join(d, 'settings.yaml') for d, _, fs in os.walk(croot) if 'settings.yaml' in fs]
            if not found and not baseline:
                return ('error', 'no settings.yaml yet: nothing is classified at all')
            if not found:
                # the reference point: the same folder with minimal settings, i.e. the legacy CSV in use
                base = croot if os.path.isdir(os.path.join(croot, 'config')) else os.path.join(croot, 'tally')
                os.makedirs(os.path.join(base, 'config'), exist_ok=True)
                with open(os.path.join(base, 'config', 'settings.yaml'), 'w', encoding='utf-8') as f:
                    f.write(SETTINGS)
            else:
                text = open(found[0], encoding='utf-8').read()
                if 'data/bank.csv' not in text:
                    if re.search(r'^data_sources:[ \t]*$', text, re.M):
                        text = re.sub(r'^data_sources:[ \t]*$', lambda m: 'data_sources:\n' + BANK_ENTRY.rstrip('\n'), text, count=1, flags=re.M)
                    else:
                        text = text.rstrip('\n') + '\ndata_sources:\n' + BANK_ENTRY
                    with open(found[0], 'w', encoding='utf-8') as f:
                        f.write(text)
            return classify_tree(croot)
        finally:
            shutil.rmtree(copy_root, ignore_errors=True)
    r = cli.run(['up', '-q', '--format', 'json', '-v'], cwd=root)
    if r.code != 0:
        return ('error', (r.err or r.out)[-300:])
    try:
        jd = json.loads(r.out)
    except ValueError:
        return ('error', 'no JSON: ' + r.out[:200])
    return {m['name']: (m['category'], m['subcategory'], m['count']) for m in jd['merchants']}


def fresh(case):
    root = tempfile.mkdtemp(prefix='c15_', dir=obs.tmpdir())
    build(case, root)
    return root


def check(case, stats: Stats):
    import shutil
    shape = case['shape']
    entry = shape['entry']
    # ---- baseline and dry run
    root0 = fresh(case)
    baseline = classify_tree(root0, shape, baseline=True)
    if not isinstance(baseline, dict):
        raise HarnessError(f'baseline budget does not run: {baseline}')
    before = snapshot(root0)
    log_path = os.path.join(obs.tmpdir(), f'effects_{os.getpid()}.log')
    rc = run_in_child(entry, root0, shape, -1, 'dry', log_path)
    effects = [json.loads(l) for l in open(log_path)] if os.path.exists(log_path) else []
    done = classify_tree(root0, shape)
    ctx = f"shape={shape}\neffects={[(e['kind'], e['desc']) for e in effects]}"
    if done != baseline:
        raise Violation(f'after the COMPLETED migration ({entry}) `tally up` gives {done}, before it gave {baseline}\n{ctx}', dict(case, k=-1, mode='none'), 'completed-migration-differs')
    check_content(before, snapshot(root0), shape, ctx, dict(case, k=-1, mode='none'))
    shutil.rmtree(root0, ignore_errors=True)
    stats.classes['entry_' + entry] += 1
    if shape.get('settings') == 'absent':
        stats.classes['init_without_settings'] += 1
    n = len(effects)
    # ---- every prefix x mode
    for k, eff in enumerate(effects):
        modes = ['crash', 'oserror'] + (['partial'] if eff['kind'] == 'close' else [])
        for mode in modes:
            root = fresh(case)
            inj_case = dict(case, k=k, mode=mode)
            run_in_child(entry, root, shape, k, mode)
            after = snapshot(root)
            what = f"{entry}: {mode} at effect {k}/{n} ({eff['kind']} {eff['desc']})\n{ctx}"
            check_content(before, after, shape, what, inj_case)
            now = classify_tree(root, shape)
            rules_on_disk = [p for p in after if p.endswith(('merchant_categories.csv', 'merchants.rules')) or '.csv.bak' in p]
            empty_handed = isinstance(now, dict) and now and all(v[0] == 'Unknown' for v in now.values()) and any(v[0] != 'Unknown' for v in baseline.values())
            # the user re-runs the command (whether or not the budget still works: the migration is visibly unfinished); the budget must classify as before
            # afterwards - in particular a half-written leftover of the first attempt must not be taken for the finished product
            run_entry(entry, root, shape)
            again = classify_tree(root, shape)
            if again != baseline:
                raise Violation(f'stranded: {what}\nafter the fault `tally up` gives {now}\nafter re-running `{entry}` it gives {again}\nbaseline {baseline}\n'
                                f'files: {sorted(snapshot(root))}', inj_case, 'stranded')
            if now != baseline and not (empty_handed and rules_on_disk):
                # allowed by the statement only if the re-run repairs it (it did); an error state is fine, silently classifying without the rules is not
                pass
            if empty_handed and rules_on_disk:
                raise Violation(f'empty-handed: {what}\n`tally up` classified with no rules (everything Unknown) although the user\'s rules are on disk in {rules_on_disk}; '
                                f're-running {entry} repaired it', inj_case, 'empty-handed')
            check_content(before, snapshot(root), shape, what + '\n(after the re-run)', inj_case)
            shutil.rmtree(root, ignore_errors=True)
            stats.case(jhash([shape, case['rules'], k, mode]), 1 <= k < n, ['mode_' + mode] + (['intermediate_prefix'] if 1 <= k < n else []),
                       sample={'entry': entry, 'k': k, 'mode': mode, 'effect': eff} if (k == 1 and mode == 'crash' and len(stats.samples) < 4) else None)
    stats.exhaustive[f'every effect prefix x applicable mode of each generated budget'] = True


def check_content(before, after, shape, what, case):
    contents_after = set(after.values())
    for p, b in before.items():
        if p.startswith(('output/', 'tally/output/')):
            continue
        if b in contents_after:
            continue
        if p.endswith('settings.yaml'):
            cand = [c for q, c in after.items() if q.endswith('settings.yaml')]
            if any(c.startswith(b) for c in cand):
                continue
        raise Violation(f'content of {p} lost: {what}\nfiles now: {sorted(after)}', case, 'content-lost')


def replay(case):
    """Re-run one injection (k, mode) of a recorded case, or the whole enumeration when k is absent."""
    try:
        if 'k' not in case or case.get('k', -1) < 0:
            check({k: v for k, v in case.items() if k not in ('k', 'mode')}, Stats())
            return
        base = {k: v for k, v in case.items() if k not in ('k', 'mode')}
        check(base, Stats())
    finally:
        obs.cleanup()


def shards(tier):
    n = 12 if tier == 'quick' else 150
    return [('random', n)] * 16


def run_shard(kind, n, seed, tier):
    s = Stats()
    try:
        campaign(case_st(), check, n, seed, s, tier)
    finally:
        obs.cleanup()
    return s
