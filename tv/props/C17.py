"""C17 - Rule files are read by structure alone; malformed ones are rejected, not trimmed."""
from __future__ import annotations

import os
import re

from hypothesis import strategies as st

from tv import lang, obs, rules as R
from tv.harness import Stats, Violation, campaign, jhash

ID = 'C17'
LEVEL = 'exploration'
RULE = ('Canonical merchants.rules and views files from the generators x layout-preserving edits (comment/blank lines anywhere, '
        'trailing blanks, CRLF, re-indented property lines, permuted distinct properties keeping let/field/variable order; merchants '
        'only: key letter case, indented/padded headers) - parsed structure and classification must equal the canonical file\'s and '
        'the structure intended by construction (one rule/view per section, stated properties, file order); x single-point '
        'corruptions (missing match/filter, unknown property, malformed let/field/priority, invalid or non-whitelisted expression in '
        'match/let/field/filter/view variable/top-level variable/transform) - each must raise MerchantParseError/SectionParseError '
        'naming the corrupted line or its section header; command level: a budget whose rules file is corrupt must make `tally up` '
        'and `tally diag` report the loader error (or exit non-zero), never proceed as if there were no rules. Non-trivial = file '
        'with >=2 sections and an edit touching >=3 lines, or a corruption outside the first section; distinct by hash.')
ASSUMPTIONS = ['views files: headers at column 0 and lower-case `filter:`/`description:` keys (the statement lists key case and indented headers for merchants files only)']
REQUIRED_CLASSES = ['merchants_edit', 'views_edit', 'crlf', 'permuted_props', 'corrupt_merchants', 'corrupt_views', 'corrupt_toplevel', 'cli_corrupt_rules', 'cli_corrupt_views']

# ------------------------------------------------------------------------------------------------
# canonical structures
# ------------------------------------------------------------------------------------------------
def merchants_struct(rf):
    """[('top', [line...]), (name, [(key, value)...]) ...] and the intended parse result."""
    top = [f'{n} = {lang.render(e)}' for n, e in rf['vars']] + [f'field.{k} = {lang.render(e)}' for k, e in rf['transforms']]
    secs = []
    intended = []
    for r in rf['rules']:
        props = [('let', f'{n} = {lang.render(e)}') for n, e in r['lets']]
        props.append(('match', lang.render(r['match'])))
        if r['category']:
            props.append(('category', r['category']))
        if r['subcategory']:
            props.append(('subcategory', r['subcategory']))
        if r['merchant']:
            props.append(('merchant', r['merchant']))
        if r['priority'] is not None:
            props.append(('priority', str(r['priority'])))
        if r['tags']:
            props.append(('tags', ', '.join(R.render_tag(t) for t in r['tags'])))
        props += [('field', f'{n} = {lang.render(e)}') for n, e in r['fields']]
        secs.append((r['name'], props))
        intended.append((r['name'], lang.render(r['match']), r['category'], r['subcategory'], r['merchant'] or r['name'],
                         frozenset(R.render_tag(t).strip() for t in r['tags'] if R.render_tag(t).strip()),
                         50 if r['priority'] is None else r['priority'], tuple((n.lower(), lang.render(e)) for n, e in r['lets']),
                         tuple(sorted((n.lower(), lang.render(e)) for n, e in r['fields']))))
    ivars = {n.lower(): lang.render(e) for n, e in rf['vars']}
    itrans = [(f'field.{k}', lang.render(e)) for k, e in rf['transforms']]
    return top, secs, (intended, ivars, itrans)


_RELOAD = {}


def parsed_merchants(text):
    eng = obs.load_engine(text)
    # the same text read from a FILE whose path has been loaded before with other contents: a load reflects what the file states now
    from pathlib import Path
    from tally.merchant_engine import load_merchants_file
    if 'path' not in _RELOAD or not os.path.isdir(os.path.dirname(_RELOAD['path'])):
        _RELOAD['path'] = obs.write_rules('# placeholder\n', 'reloaded.rules')
    with open(_RELOAD['path'], 'w', encoding='utf-8', newline='') as f:
        f.write(text)
    S = lambda e: ([(r.name, r.match_expr, r.category, r.subcategory, r.merchant, frozenset(r.tags), r.priority, tuple(r.let_bindings), tuple(sorted(r.fields.items()))) for r in e.rules],
                   dict(e.variables), list(e.transforms))
    eng_f = load_merchants_file(Path(_RELOAD['path']))
    if S(eng_f) != S(eng):
        raise Violation(f'the file {os.path.basename(_RELOAD["path"])} (re-written, then loaded) gives {S(eng_f)[0]} but its text parsed directly gives {S(eng)[0]}\n{text}',
                        {'kind': 'reload', 'text': text}, 'file-vs-text')
    return ([(r.name, r.match_expr, r.category, r.subcategory, r.merchant, frozenset(r.tags), r.priority, tuple(r.let_bindings), tuple(sorted(r.fields.items())))
             for r in eng.rules], dict(eng.variables), list(eng.transforms)), eng


VIEW_FILTERS = ['total > 100', 'category == "Food" and months >= 2', 'sum(payments) > big', 'max(sum(by("month"))) > 50', 'cv < 0.5 or "recurring" in tags',
                'months >= max_val(2, period("month") * 0.5)', 'True', 'avg(payments) > lim and total < 5000', 'subcategory == "Online"']
view_st = st.fixed_dictionaries({
    'name': st.sampled_from(['Bills', 'Food & Drink', 'Big Stuff', 'Every Month', 'Rare', 'Subscriptions', 'Z']),
    'filter': st.sampled_from(VIEW_FILTERS),
    'description': st.one_of(st.none(), st.sampled_from(['Things that recur', 'Large: purchases', '50% of months'])),
    'vars': st.lists(st.tuples(st.sampled_from(['lim', 'big', 'share']), st.sampled_from(['100', 'sum(payments) / 12', 'total * 0.5', 'months'])).map(list), max_size=2,
                     unique_by=lambda p: p[0]),
})
views_file_st = st.fixed_dictionaries({
    'globals': st.lists(st.tuples(st.sampled_from(['big', 'lim', 'g1']), st.sampled_from(['500', 'stddev(payments) / avg(payments)', 'months >= 6'])).map(list), max_size=2,
                        unique_by=lambda p: p[0]),
    'views': st.lists(view_st, min_size=1, max_size=5, unique_by=lambda v: v['name']),
})


def views_struct(vf):
    top = [f'{n} = {e}' for n, e in vf['globals']]
    secs = []
    for v in vf['views']:
        props = [('var', f'{n} = {e}') for n, e in v['vars']]
        if v['description']:
            props.append(('description', v['description']))
        props.append(('filter', v['filter']))
        secs.append((v['name'], props))
    intended = ([(v['name'], v['filter'], v['description'], tuple((n, e) for n, e in v['vars'])) for v in vf['views']], {n: e for n, e in vf['globals']})
    return top, secs, intended


def parsed_views(text):
    from tally import section_engine as se
    cfg = se.parse_sections(text)
    return ([(s.name, s.filter_expr, s.description, tuple(s.variables.items())) for s in cfg.sections], dict(cfg.global_variables)), cfg


# ------------------------------------------------------------------------------------------------
# layout
# ------------------------------------------------------------------------------------------------
layout_st = st.fixed_dictionaries({
    'crlf': st.booleans(), 'final_newline': st.booleans(), 'seed': st.integers(0, 2 ** 30),
    'comments': st.integers(0, 6), 'indent': st.booleans(), 'trail': st.booleans(), 'permute': st.booleans(), 'keycase': st.booleans(), 'header_pad': st.booleans(),
})


class LCG:
    def __init__(self, seed):
        self.s = seed or 1

    def next(self, n):
        self.s = (self.s * 1103515245 + 12345) % (2 ** 31)
        return (self.s >> 8) % n


def render_layout(top, secs, lay, merchants=True):
    """Returns (text, number of lines that differ from the canonical rendering)."""
    g = LCG(lay['seed'])
    lines = []
    touched = 0
    for l in top:
        ind = ['', '  ', '\t'][g.next(3)] if lay['indent'] else ''
        touched += bool(ind)
        lines.append(ind + l)
    for name, props in secs:
        props = list(props)
        if lay['permute'] and len(props) > 1:
            order = list(range(len(props)))
            for i in range(len(order) - 1, 0, -1):
                j = g.next(i + 1)
                order[i], order[j] = order[j], order[i]
            perm = [props[i] for i in order]
            # keep the relative order of let / field / variable lines
            for kind in ('let', 'field', 'var'):
                orig = [p for p in props if p[0] == kind]
                it = iter(orig)
                perm = [next(it) if p[0] == kind else p for p in perm]
            if perm != props:
                touched += len(props)
            props = perm
        lines.append('')
        hdr = f'[{name}]'
        if lay['header_pad']:
            hdr = hdr + ['', ' ', '\t ', '  '][g.next(4)]
            if merchants:
                hdr = ['', ' ', '\t', '   '][g.next(4)] + hdr
            touched += 1
        lines.append(hdr)
        for key, val in props:
            if key == 'var':
                body = val
            else:
                k = key
                if lay['keycase'] and merchants:
                    k = [key, key.upper(), key.capitalize()][g.next(3)]
                    touched += k != key
                sep = [': ', ':', ':   ', ' : '][g.next(4)] if (lay['indent'] and merchants) else ': '
                body = f'{k}{sep}{val}'
            ind = ['', '  ', '\t', '      '][g.next(4)] if lay['indent'] else ''
            touched += bool(ind)
            lines.append(ind + body)
    for _ in range(lay['comments']):
        pos = g.next(len(lines) + 1)
        # (comments may contain characters str.splitlines() would break a line at: U+2028, NEL, form feed - they are still ONE comment line)
        lines.insert(pos, ['# a comment', '   # indented comment: with colon', '', '   ', '#[NotASection]', '# x = 1', '# pasted note\u2028category: Misc', '# page\x0c[NotASection]',
                           '# nel\x85priority: 7', '# sep\u2029filter: False'][g.next(10)])
        touched += 1
    if lay['trail']:
        for i in range(len(lines)):
            if g.next(2):
                lines[i] += ['  ', '\t', ' '][g.next(3)]
                touched += 1
    nl = '\r\n' if lay['crlf'] else '\n'
    if lay['crlf']:
        touched += len(lines)
    return nl.join(lines) + (nl if lay['final_newline'] else ''), touched


# ------------------------------------------------------------------------------------------------
# corruptions
# ------------------------------------------------------------------------------------------------
BAD_EXPRS = ['contains("UBER"', 'amount >', 'lambda: 1', '{"a": 1}', '[1, 2]', 'x = = 2', 'amount > 5 and', '__import__("os")'.replace('__import__("os")', 'f"{amount}"'),
             '2 ** 3', 'amount is None', '(1, 2)', 'contains(pattern="x")']
NON_WHITELISTED_BUT_CALLABLE = ['__import__("os")']  # parses with allowed nodes (Call/Name): rejected only at evaluation - not used as a load-time corruption


_UNKNOWN = []


def unknown_keys():
    """Keys that are not properties of the rule language: misspellings, plus every attribute name of the loader's own rule objects (a property
    table derived from the implementation must not let `name:` or `match_expr:` through)."""
    if not _UNKNOWN:
        keys = ['matchh', 'categroy', 'tag', 'descr', 'lett', 'pattern', 'description', 'filter', 'rule']
        try:
            import dataclasses
            from tally import merchant_engine as me
            for obj in vars(me).values():
                if isinstance(obj, type) and dataclasses.is_dataclass(obj):
                    keys += [f.name for f in dataclasses.fields(obj)]
        except Exception:
            pass
        documented = {'match', 'category', 'subcategory', 'merchant', 'tags', 'priority', 'let', 'field'}
        _UNKNOWN.extend(sorted({k for k in keys if k.lower() not in documented and k.isidentifier()}))
    return _UNKNOWN


def corrupt_merchants(top, secs, c):
    """-> (text, allowed line numbers) for corruption choice c (dict of ints) or None."""
    kind = c['kind']
    top = list(top)
    secs = [(n, list(p)) for n, p in secs]
    target_line = None  # ('top', idx) | ('sec', si, pi | None)
    if kind in ('var', 'transform'):
        if kind == 'var':
            top.insert(c['pos'] % (len(top) + 1), f'badvar = {BAD_EXPRS[c["expr"] % len(BAD_EXPRS)]}')
        else:
            top.insert(c['pos'] % (len(top) + 1), f'field.description = {BAD_EXPRS[c["expr"] % len(BAD_EXPRS)]}')
        target = ('top', c['pos'] % len(top) if False else None)
        text_lines, where = _assemble(top, secs)
        idx = next(i for i, l in enumerate(text_lines) if l.startswith('badvar = ') or (l.startswith('field.description = ') and any(l.endswith(b) for b in BAD_EXPRS)))
        return '\n'.join(text_lines) + '\n', {idx + 1}
    if not secs:
        return None
    si = c['sec'] % len(secs)
    name, props = secs[si]
    bad = BAD_EXPRS[c['expr'] % len(BAD_EXPRS)]
    if kind == 'no_match':
        props[:] = [p for p in props if p[0] != 'match']
        mark = None
    elif kind == 'unknown_key':
        pi = c['pos'] % len(props)
        props[pi] = (unknown_keys()[c['expr'] % len(unknown_keys())], props[pi][1])
        mark = pi
    elif kind == 'bad_let':
        props.insert(0, ('let', ['= 5', '1x = 2', 'x == ', 'no equals sign', 'a b = 1', 'field.big = amount > 100', 'txn.x = 1', 'a.b = 2'][c['expr'] % 8]))
        mark = 0
    elif kind == 'bad_field':
        props.append(('field', ['= 5', '9f = 2', 'just text', 'a-b = 1', 'field.memo = "x"', 'field.note = description', 'a.b = 1'][c['expr'] % 7]))
        mark = len(props) - 1
    elif kind == 'bad_priority':
        props.append(('priority', ['high', '1.5', '', '10 20'][c['expr'] % 4]))
        mark = len(props) - 1
    elif kind == 'bad_match':
        pi = next(i for i, p in enumerate(props) if p[0] == 'match')
        props[pi] = ('match', bad)
        mark = pi
    elif kind == 'bad_let_expr':
        props.insert(0, ('let', f'v9 = {bad}'))
        mark = 0
    elif kind == 'bad_field_expr':
        props.append(('field', f'f9 = {bad}'))
        mark = len(props) - 1
    elif kind == 'no_category_no_tags':
        props[:] = [p for p in props if p[0] not in ('category', 'tags')]
        mark = None
    elif kind == 'stray_text':
        props.insert(c['pos'] % (len(props) + 1), ('RAW', 'this line has no key'))
        mark = c['pos'] % len(props)
    elif kind == 'empty_section':
        # the whole body gone (e.g. commented out): a section lacking its match
        props[:] = [('RAW', '# ' + (v if k in ('var', 'RAW') else f'{k}: {v}')) for k, v in props] if c['expr'] % 2 else []
        mark = None
    elif kind == 'stray_header':
        # a bare header directly before another header or at the end of the file
        si = c['pos'] % (len(secs) + 1)
        secs.insert(si, (['Stray', name, 'New rule'][c['expr'] % 3], []))
        mark = None
    else:
        return None
    text_lines, where = _assemble(top, secs)
    allowed = {where[si]['header']}
    if mark is not None:
        allowed.add(where[si]['props'][mark])
    return '\n'.join(text_lines) + '\n', allowed


def _assemble(top, secs):
    lines = list(top)
    where = []
    for name, props in secs:
        lines.append('')
        lines.append(f'[{name}]')
        w = {'header': len(lines), 'props': []}
        for key, val in props:
            lines.append(val if key in ('var', 'RAW') else f'{key}: {val}')
            w['props'].append(len(lines))
        where.append(w)
    return lines, where


def corrupt_views(top, secs, c):
    kind = c['kind']
    top = list(top)
    secs = [(n, list(p)) for n, p in secs]
    bad = BAD_EXPRS[c['expr'] % len(BAD_EXPRS)]
    if kind == 'var':
        top.append(f'gbad = {bad}')
        lines, where = _assemble(top, secs)
        return '\n'.join(lines) + '\n', {len(top)}
    si = c['sec'] % len(secs)
    name, props = secs[si]
    if kind == 'no_match':
        props[:] = [p for p in props if p[0] != 'filter']
        mark = None
    elif kind == 'bad_match':
        pi = next(i for i, p in enumerate(props) if p[0] == 'filter')
        props[pi] = ('filter', bad)
        mark = pi
    elif kind == 'bad_let_expr':
        props.insert(0, ('var', f'lv = {bad}'))
        mark = 0
    elif kind == 'empty_section':
        props[:] = [('RAW', '# ' + (v if k in ('var', 'RAW') else f'{k}: {v}')) for k, v in props] if c['expr'] % 2 else []
        mark = None
    elif kind == 'stray_header':
        si = c['pos'] % (len(secs) + 1)
        secs.insert(si, (['Stray', name, 'New view'][c['expr'] % 3], []))
        mark = None
    elif kind in ('unknown_key', 'stray_text'):
        props.insert(c['pos'] % (len(props) + 1), ('RAW', ['match: total > 1', 'this line has no key', 'filter total > 1', 'tags: a, b'][c['expr'] % 4]))
        mark = c['pos'] % len(props)
    else:
        return None
    lines, where = _assemble(top, secs)
    allowed = {where[si]['header']}
    if mark is not None:
        allowed.add(where[si]['props'][mark])
    return '\n'.join(lines) + '\n', allowed


corruption_st = st.fixed_dictionaries({
    'kind': st.sampled_from(['no_match', 'unknown_key', 'bad_let', 'bad_field', 'bad_priority', 'bad_match', 'bad_let_expr', 'bad_field_expr', 'no_category_no_tags', 'stray_text',
                             'var', 'transform', 'empty_section', 'empty_section', 'stray_header', 'stray_header']),
    'sec': st.integers(0, 9), 'pos': st.integers(0, 9), 'expr': st.integers(0, 30)})

case_st = st.fixed_dictionaries({
    'rf': R.rule_file(max_rules=5, depth=1), 'vf': views_file_st, 'layouts': st.lists(layout_st, min_size=2, max_size=3),
    'corruptions': st.lists(corruption_st, min_size=3, max_size=5), 'txns': st.lists(lang.txn_case, min_size=2, max_size=2), 'rows': lang.rows_case})


def check(case, stats: Stats):
    from tally.merchant_engine import MerchantParseError
    from tally.section_engine import SectionParseError
    classes = set()
    nontrivial = False
    # ---------------- merchants: layout edits
    top, secs, intended = merchants_struct(case['rf'])
    canon_text, _ = render_layout(top, secs, {'crlf': False, 'final_newline': True, 'seed': 1, 'comments': 0, 'indent': False, 'trail': False, 'permute': False,
                                              'keycase': False, 'header_pad': False})
    try:
        canon, eng0 = parsed_merchants(canon_text)
    except Exception as e:
        raise Violation(f'canonical merchants file rejected: {type(e).__name__}: {e}\n{canon_text}', case, 'canonical-rejected')
    if canon != intended:
        raise Violation(f'parsed structure differs from the sections as written:\n parsed  {canon}\n written {intended}\n{canon_text}', case, 'structure')
    rows = lang.mk_rows(case['rows'])
    txns = [lang.mk_txn(t) for t in case['txns']]
    base_cls = [_cls(eng0, t, rows) for t in txns]
    for lay in case['layouts']:
        text, touched = render_layout(top, secs, lay, merchants=True)
        try:
            got, eng = parsed_merchants(text)
        except Exception as e:
            raise Violation(f'layout-edited merchants file rejected: {type(e).__name__}: {e}\n--- edited\n{text!r}\n--- canonical\n{canon_text}', case, 'edit-rejected')
        if got != canon:
            raise Violation(f'layout edit changed the parsed rules:\n edited    {got}\n canonical {canon}\n--- edited\n{text!r}', case, 'edit-structure')
        if [_cls(eng, t, rows) for t in txns] != base_cls:
            raise Violation(f'layout edit changed classification\n--- edited\n{text!r}', case, 'edit-classification')
        classes.add('merchants_edit')
        if lay['crlf']:
            classes.add('crlf')
        if lay['permute']:
            classes.add('permuted_props')
        if len(secs) >= 2 and touched >= 3:
            nontrivial = True
    # ---------------- views: layout edits
    vtop, vsecs, vintended = views_struct(case['vf'])
    vcanon_text, _ = render_layout(vtop, vsecs, {'crlf': False, 'final_newline': True, 'seed': 1, 'comments': 0, 'indent': False, 'trail': False, 'permute': False,
                                                 'keycase': False, 'header_pad': False}, merchants=False)
    try:
        vcanon, _cfg = parsed_views(vcanon_text)
    except Exception as e:
        raise Violation(f'canonical views file rejected: {type(e).__name__}: {e}\n{vcanon_text}', case, 'canonical-rejected')
    if vcanon != vintended:
        raise Violation(f'parsed views differ from the sections as written:\n parsed  {vcanon}\n written {vintended}\n{vcanon_text}', case, 'structure')
    for lay in case['layouts']:
        text, touched = render_layout(vtop, vsecs, lay, merchants=False)
        try:
            got, _ = parsed_views(text)
        except Exception as e:
            raise Violation(f'layout-edited views file rejected: {type(e).__name__}: {e}\n--- edited\n{text!r}\n--- canonical\n{vcanon_text}', case, 'edit-rejected')
        if got != vcanon:
            raise Violation(f'layout edit changed the parsed views:\n edited    {got}\n canonical {vcanon}\n--- edited\n{text!r}', case, 'edit-structure')
        classes.add('views_edit')
    # ---------------- corruptions
    for c in case['corruptions']:
        r = corrupt_merchants(top, secs, c)
        if r is not None:
            text, allowed = r
            try:
                parsed_merchants(text)
                raise Violation(f"corrupted merchants file ({c['kind']}) was accepted:\n{text}", case, 'corruption-accepted:' + c['kind'])
            except MerchantParseError as e:
                if e.line_number not in allowed:
                    raise Violation(f"corruption {c['kind']} on line(s) {sorted(allowed)} reported at line {e.line_number}: {e}\n{text}", case, 'corruption-line')
            except Violation:
                raise
            except Exception as e:
                raise Violation(f"corrupted merchants file ({c['kind']}) raised {type(e).__name__}: {e} instead of a parse error\n{text}", case, 'corruption-crash')
            classes.add('corrupt_toplevel' if c['kind'] in ('var', 'transform') else 'corrupt_merchants')
            if c['kind'] not in ('var', 'transform') and secs and c['sec'] % len(secs) > 0:
                nontrivial = True
        if c['kind'] in ('no_match', 'bad_match', 'bad_let_expr', 'unknown_key', 'stray_text', 'var', 'empty_section', 'stray_header'):
            r = corrupt_views(vtop, vsecs, c)
            if r is not None:
                text, allowed = r
                try:
                    parsed_views(text)
                    raise Violation(f"corrupted views file ({c['kind']}) was accepted:\n{text}", case, 'corruption-accepted-views:' + c['kind'])
                except SectionParseError as e:
                    if e.line_number not in allowed:
                        raise Violation(f"views corruption {c['kind']} on line(s) {sorted(allowed)} reported at line {e.line_number}: {e}\n{text}", case, 'corruption-line')
                except Violation:
                    raise
                except Exception as e:
                    raise Violation(f"corrupted views file ({c['kind']}) raised {type(e).__name__}: {e}\n{text}", case, 'corruption-crash')
                classes.add('corrupt_views')
    stats.case(jhash(case), nontrivial, classes, sample={'merchants': render_layout(top, secs, case['layouts'][0])[0][:500]})


def _cls(eng, txn, rows):
    try:
        d = obs.engine_classify(eng, txn, rows)
    except obs.Crash as c:
        return ('crash', str(c))
    return (d['merchant'], d['category'], d['subcategory'], frozenset(d['tags']), repr(sorted(d['extra_fields'].items())))


# ------------------------------------------------------------------------------------------------
# command level: a corrupt rules file is reported, not treated as "no rules"
# ------------------------------------------------------------------------------------------------
CLI_CORRUPT = ['[Broken]\ncategory: X\n', '[A]\nmatch: contains("UBER"\ncategory: X\n', '[A]\nmatch: contains("UBER")\nbogus: 1\ncategory: X\n',
               '[A]\nmatch: contains("UBER")\ncategory: Transport\n\n[B]\nmatch: lambda: 1\ncategory: Y\n', '[A]\nmatch: contains("UBER")\npriority: high\ncategory: X\n']


# (text, lines an error may name: the corrupted line or the header of its section)
CLI_CORRUPT_VIEWS = [('[Subs\nfilter: total > 1\n', {1}), ('[Subs]\nfilter: total >\n', {1, 2}), ('[Subs]\nfilter: total > 1\n\n[Empty]\n# nothing\n', {4}),
                     ('big = total >\n\n[Subs]\nfilter: total > 1\n', {1}), ('[Subs]\nfilter: total > 1\nmatch: x\n', {1, 3})]


def check_cli_views(case, stats: Stats):
    """a views file that cannot be loaded is reported (with its line) by `tally up`, not silently treated as "no views" """
    from tv.drv import cli
    text, allowed = CLI_CORRUPT_VIEWS[case['which'] % len(CLI_CORRUPT_VIEWS)]
    with cli.Budget() as b:
        b.write('config/settings.yaml', 'year: 2024\nmerchants_file: config/merchants.rules\nviews_file: config/views.rules\ndata_sources:\n  - name: Bank\n    file: data/bank.csv\n'
                                        '    format: "{date:%Y-%m-%d},{description},{amount}"\n')
        b.write('config/merchants.rules', '[Netflix]\nmatch: contains("NETFLIX")\ncategory: Subscriptions\n')
        b.write('config/views.rules', text)
        b.write('data/bank.csv', 'Date,Description,Amount\n2024-01-05,UBER TRIP,12.50\n2024-02-05,NETFLIX,9.99\n')
        for cmd in (['up', '-q', '--format', 'json', b.config], ['up', '--format', 'summary', b.config], ['up', '-q', b.config]):
            r = cli.run(cmd, cwd=b.root)
            out = r.out + r.err
            if obs.crashed(out):
                raise Violation(f"`tally {' '.join(cmd[:-1])}` crashed on a corrupt views file:\n{out[-800:]}", {'kind': 'cli_views', 'which': case['which']}, 'cli-views-crash')
            if not ('views' in out.lower() and any(w in out.lower() for w in ('error', 'invalid', 'could not', 'cannot', 'failed', 'unable', 'line '))):
                raise Violation(f"`tally {' '.join(cmd[:-1])}` on a budget whose views.rules is corrupt does not report the error (exit {r.code}):\n--- views\n{text}\n--- output\n{out[-1200:]}",
                                {'kind': 'cli_views', 'which': case['which']}, 'cli-views-swallowed')
            m = re.search(r'Line (\d+)', out)
            if m and int(m.group(1)) not in allowed:
                raise Violation(f'corrupt views file: error reported at line {m.group(1)}, corruption at line(s) {sorted(allowed)}\n{text}\n{out[-600:]}', {'kind': 'cli_views', 'which': case['which']},
                                'cli-views-line')
    stats.case(jhash(case), True, {'cli_corrupt_views'}, sample={'views': text})


def check_cli(case, stats: Stats):
    from tv.drv import cli
    text = CLI_CORRUPT[case['which'] % len(CLI_CORRUPT)]
    with cli.Budget() as b:
        b.write('config/settings.yaml', 'year: 2024\nmerchants_file: config/merchants.rules\ndata_sources:\n  - name: Bank\n    file: data/bank.csv\n'
                                        '    format: "{date:%Y-%m-%d},{description},{amount}"\n')
        b.write('config/merchants.rules', text)
        b.write('data/bank.csv', 'Date,Description,Amount\n2024-01-05,UBER TRIP,12.50\n2024-02-05,NETFLIX,9.99\n')
        for cmd in (['up', '--format', 'json', b.config], ['up', '-q', '--format', 'summary', b.config], ['diag', b.config]):
            r = cli.run(cmd, cwd=b.root)
            out = r.out + r.err
            reported = ('Line ' in out and ('rror' in out or 'nvalid' in out or 'issing' in out or 'nknown' in out)) or \
                       ('merchants.rules' in out and ('rror' in out.lower()))
            if r.code == 0 and not reported:
                raise Violation(f"`tally {' '.join(cmd[:-1])}` on a budget whose merchants.rules is corrupt exited 0 without reporting the error:\n--- rules\n{text}\n--- output\n{out[:1500]}",
                                {'kind': 'cli', 'which': case['which']}, 'cli-swallowed:' + cmd[0])
    stats.case(jhash(case), True, {'cli_corrupt_rules'}, sample={'rules': text})


def replay(case):
    try:
        if case.get('kind') == 'reload':
            parsed_merchants('# loaded before\n[Earlier]\nmatch: contains("EARLIER")\ncategory: Earlier\n')
            parsed_merchants(case['text'])
        elif case.get('kind') == 'cli_views':
            check_cli_views(case, Stats())
        elif case.get('kind') == 'cli':
            check_cli(case, Stats())
        else:
            check(case, Stats())
    finally:
        obs.cleanup()


def shards(tier):
    n = 300 if tier == 'quick' else 2500
    return [('files', n)] * 15 + [('cli', 0)]


def run_shard(kind, n, seed, tier):
    s = Stats()
    try:
        if kind == 'cli':
            for i in range(len(CLI_CORRUPT)):
                try:
                    check_cli({'kind': 'cli', 'which': i}, s)
                except Violation as v:
                    s.violation(v)
            for i in range(len(CLI_CORRUPT_VIEWS)):
                try:
                    check_cli_views({'kind': 'cli_views', 'which': i}, s)
                except Violation as v:
                    s.violation(v)
        else:
            campaign(case_st, check, n, seed, s, tier)
    finally:
        obs.cleanup()
    return s
