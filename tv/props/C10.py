"""C10 - A merchant appears in a view exactly when the view's filter is true of it."""
from __future__ import annotations

import copy

from hypothesis import strategies as st

from tv import lang, views as V
from tv.harness import Stats, Violation, campaign, jhash
from tv.lang import RefErr

ID = 'C10'
LEVEL = 'exploration'
RULE = ('Generated views files (1-5 views; filters over months/total/cv/category/subcategory/tags/payments, sum/count/avg/min/max/'
        'stddev of payments and of by(month|year|week|day) with nested aggregation, period(), max_val/min_val, arithmetic, chains, global '
        'and view-local variables drawn from a small shared name pool - so shadowing, undefined and mixed-case names occur - and '
        'unevaluable filters) x 1-6 merchants with generated payment histories (1-12 payments over up to 18 months, several days/weeks per '
        'month, both signs, special tags on some payments), run through analyze_transactions + classify_by_sections. Oracle: reference '
        'evaluation of each filter over the merchant\'s OWN payments with their real dates; membership must be exactly the views whose '
        'filter is true, for exactly the merchants without a special tag; unevaluable => not a member, no exception; metamorphic: each '
        'view alone / reversed view order gives the same members; compute_section_totals(view).total = sum of member totals. '
        'Non-trivial = >=2 views with different member sets, a merchant in >=2 views, and a filter using an aggregate or grouping.')
ASSUMPTIONS = ['period() is asserted only when counting over all transactions and over non-excluded merchants coincide',
               'each merchant has one category/subcategory (labels of mixed merchants are last-writer and not part of the statement)',
               'variables never take the name of a primitive or function']
REQUIRED_CLASSES = ['by_day_or_week', 'excluded_merchant', 'unevaluable_filter', 'local_shadows_global', 'mixed_case_variable', 'merchant_in_two_views']

SPECIAL = {'income', 'transfer', 'investment'}

case_st = st.deferred(lambda: _case())


@st.composite
def _case(draw):
    n = draw(st.integers(1, 6))
    return {'vf': draw(V.views_file()), 'merchants': [draw(V.merchant_history(i)) for i in range(n)]}


def uses(e, pred):
    return any(pred(n) for n in lang.walk(e))


def ref_membership(vf, merchants):
    """{view name: set of merchant names}, plus bookkeeping.  Raises nothing."""
    excluded = set()
    for m in merchants:
        tl = {t.lower() for t in m['tags']}
        if m['special_on']:
            tl.add(m['special_tag'].lower())
        if tl & SPECIAL:
            excluded.add(m['name'])
    months_all, years_all, months_inc, years_inc = set(), set(), set(), set()
    for m in merchants:
        for a, mo, day in m['payments']:
            d = V.pay_date(mo, day)
            months_all.add(d.strftime('%Y-%m'))
            years_all.add(d.year)
            if m['name'] not in excluded:
                months_inc.add(d.strftime('%Y-%m'))
                years_inc.add(d.year)
    period_ambiguous = (len(months_all), len(years_all)) != (len(months_inc), len(years_inc))
    period = {'month': len(months_inc), 'year': len(years_inc)}
    member = {v['name']: set() for v in vf['views']}
    errs = {v['name']: set() for v in vf['views']}
    for m in merchants:
        if m['name'] in excluded:
            continue
        tags = set(m['tags'])
        M = V.Merchant(m['name'], m['category'], m['subcategory'], [(a, V.pay_date(mo, day)) for a, mo, day in m['payments']], tags, period)
        gv = {}
        for n, e in vf['globals']:
            M.vars = dict(gv)
            try:
                gv[n.lower()] = V.ref_view_eval(e, M)
            except RefErr:
                gv[n.lower()] = None
        for v in vf['views']:
            lv = dict(gv)
            for n, e in v['vars']:
                M.vars = dict(lv)
                try:
                    lv[n.lower()] = V.ref_view_eval(e, M)
                except RefErr:
                    lv[n.lower()] = None
            M.vars = lv
            try:
                if V.ref_view_eval(v['filter'], M):
                    member[v['name']].add(m['name'])
            except RefErr:
                errs[v['name']].add(m['name'])
    return member, errs, excluded, period_ambiguous


def tally_membership(vf_text, txns):
    from tally import section_engine as se
    from tally.analyzer import analyze_transactions, classify_by_sections, compute_section_totals
    cfg = se.parse_sections(vf_text)
    stats = analyze_transactions(copy.deepcopy(txns))
    res = classify_by_sections(stats['by_merchant'], cfg, stats['num_months'])
    totals = {name: compute_section_totals(ms)['total'] for name, ms in res.items()}
    return {name: {mn for mn, _ in ms} for name, ms in res.items()}, totals, stats


def check(case, stats: Stats):
    vf, merchants = case['vf'], case['merchants']
    text = V.render_views(vf)
    txns = V.build_txns(merchants)
    try:
        got, totals, an = tally_membership(text, txns)
    except Exception as e:
        raise Violation(f'views pipeline raised {type(e).__name__}: {e}\n{text}', case, 'crash:' + type(e).__name__)
    member, errs, excluded, period_ambiguous = ref_membership(vf, merchants)
    classes = set()
    for v in vf['views']:
        name = v['name']
        if period_ambiguous and (uses(v['filter'], lambda n: n[0] == 'call' and n[1].lower() == 'period') or
                                 any(uses(e, lambda n: n[0] == 'call' and n[1].lower() == 'period') for _, e in v['vars'] + vf['globals'])):
            classes.add('period_ambiguous_skipped')
            continue
        if got.get(name) != member[name]:
            extra, missing = got.get(name, set()) - member[name], member[name] - got.get(name, set())
            detail = []
            for mn in sorted(extra | missing):
                m = next(x for x in merchants if x['name'] == mn)
                detail.append(f"  {mn} ({'excluded: special tag' if mn in excluded else 'eligible'}; unevaluable={mn in errs[name]}): payments={m['payments']} tags={m['tags']}")
            raise Violation(f"view [{name}] filter `{lang.render(v['filter'])}`: tally lists {sorted(got.get(name, set()))}, the filter is true for {sorted(member[name])}\n"
                            + '\n'.join(detail) + f'\n--- views file\n{text}', case, 'membership')
        exp_total = sum(an['by_merchant'][mn]['total'] for mn in member[name])
        if abs(totals[name] - exp_total) > 1e-6 * max(1, abs(exp_total)):
            raise Violation(f'view [{name}] total {totals[name]} != sum of member totals {exp_total}', case, 'view-total')
        if errs[name]:
            classes.add('unevaluable_filter')
    # metamorphic: views are independent (each alone, and reversed order)
    for sub in ([v] for v in vf['views']):
        alone, _, _ = tally_membership(V.render_views(dict(vf, views=sub)), txns)
        if alone[sub[0]['name']] != got[sub[0]['name']]:
            raise Violation(f"view [{sub[0]['name']}] has members {sorted(got[sub[0]['name']])} in the full file but {sorted(alone[sub[0]['name']])} when it is the only view\n{text}",
                            case, 'view-independence')
    rev, _, _ = tally_membership(V.render_views(dict(vf, views=list(reversed(vf['views'])))), txns)
    if rev != got:
        raise Violation(f'reordering the views changed membership: {got} vs {rev}\n{text}', case, 'view-order')
    # classes
    if excluded:
        classes.add('excluded_merchant')
    for v in vf['views']:
        if uses(v['filter'], lambda n: n[0] == 'call' and n[1] == 'by' and n[2][0][1].lower() in ('day', 'week')):
            classes.add('by_day_or_week')
        if {n.lower() for n, _ in v['vars']} & {n.lower() for n, _ in vf['globals']}:
            classes.add('local_shadows_global')
        if any(n != n.lower() for n, _ in v['vars'] + vf['globals']) and uses(v['filter'], lambda n: n[0] == 'var'):
            classes.add('mixed_case_variable')
    sets = [frozenset(s) for s in got.values()]
    two = any(sum(1 for s in sets if mn in s) >= 2 for mn in {m['name'] for m in merchants})
    if two:
        classes.add('merchant_in_two_views')
    agg = any(uses(v['filter'], lambda n: n[0] == 'call' and n[1].lower() in ('sum', 'count', 'avg', 'max', 'min', 'stddev', 'by')) for v in vf['views'])
    nontrivial = len(set(sets)) >= 2 and two and agg
    stats.case(jhash(case), nontrivial, classes, sample={'views': text[:500], 'merchants': [m['name'] for m in merchants]} if len(stats.samples) < 3 else None)


def replay(case):
    check(case, Stats())


def shards(tier):
    n = 350 if tier == 'quick' else 2500
    return [('random', n)] * 16


def run_shard(kind, n, seed, tier):
    s = Stats()
    campaign(case_st, check, n, seed, s, tier)
    return s
