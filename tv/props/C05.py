"""C05 - Every well-formed statement row becomes exactly one transaction, faithfully."""
from __future__ import annotations

import csv
import io
import math
import os
from datetime import date, datetime

from hypothesis import strategies as st

from tv import obs
from tv.harness import Stats, Violation, campaign, jhash

ID = 'C05'
LEVEL = 'exploration'
RULE = ('A generated layout (width 3-8; positions of date, amount, description or 1-3 custom captures + template, optional '
        'location, extra custom fields, skip columns), dialect (comma / single char ; | : / tab / regex:), header yes/no, decimal '
        'convention, sign mode ({amount}/{-amount}/{+amount}/negate_amount override), one of 7 date formats, and 0-20 intended rows: '
        'good rows (padded/unpadded dates; amounts from a cents value with optional thousands separators, currency symbol, '
        'parentheses, sign, blanks; descriptions with quotes, embedded delimiters/newlines, Unicode, surrounding blanks) and '
        'malformed rows (short at every truncation point, empty cells, bad/out-of-range dates, non-numeric/empty/nan/inf/zero '
        'amounts, blank lines, long rows). The file is WRITTEN by the harness and parsed by resolve_source_format + '
        'parse_generic_csv; the oracle knows every intended record by construction and never parses the file. Non-trivial = >=1 '
        'good and >=1 malformed row, or a quoted cell with embedded delimiter/newline, or a non-default dialect/decimal/sign '
        'setting; distinct by hash of the case.')
ASSUMPTIONS = ['cells contain no bare carriage return and files carry no BOM (text-mode newline translation / BOM handling are outside the statement)',
               'date cells are exactly strftime output (padded or unpadded); amounts like 1_000 / 1e3 are not generated (statement silent)',
               'location is asserted only when its cell is non-empty']
REQUIRED_CLASSES = ['dialect_whitespace_char', 'regex_header_not_matching', 'good_and_malformed', 'embedded_delim_or_newline', 'dialect_regex', 'dialect_tab', 'dialect_char', 'decimal_comma', 'sign_negate', 'sign_abs',
                    'template_mode', 'short_row_before_capture', 'nonfinite_amount', 'no_header']

DATE_FORMATS = ['%m/%d/%Y', '%Y-%m-%d', '%d/%m/%Y', '%m/%d/%y', '%d.%m.%Y', '%d %b %Y', '%Y%m%d']
DESC_TEXT = ['NETFLIX.COM', 'UBER *EATS', 'AMZN Mktp US*1A2B3', 'Café "Zoë" ☕', "O'NEIL'S PUB", 'HOLIDAY INN, SEATTLE WA', 'a;b|c:d', 'line1\nline2', 'tab\there',
             '  padded  ', '{amount}', '100%', '日本 レストラン', '#1234 STORE', 'x', '-5.00', '"quoted"', 'semi;colon', 'pipe|d', 'co:lon', 'back\\slash', 'CHECK 1001',
             # characters str.splitlines() treats as line boundaries but a text file does not: they are ordinary cell content
             'LINE\u2028SEP STORE', 'NEL\u0085FORM\x0cFEED', 'PARA\u2029GRAPH 12.50', 'VT\x0bFS\x1cGS\x1dRS\x1e END']
CUSTOM_NAMES = ['memo', 'type', 'vendor', 'cardholder', 'code', '_ref']


@st.composite
def layout(draw):
    width = draw(st.integers(3, 8))
    template_mode = draw(st.integers(0, 3)) == 0
    n_custom = draw(st.integers(1, min(3, width - 2))) if template_mode else draw(st.integers(0, min(2, width - 3)))
    roles = ['date', 'amount'] + ([] if template_mode else ['description']) + [f'c{i}' for i in range(n_custom)]
    if len(roles) < width and draw(st.booleans()):
        roles.append('location')
    roles += ['skip'] * (width - len(roles))
    roles = draw(st.permutations(roles))
    names = draw(st.permutations(CUSTOM_NAMES))
    cols = []
    for r in roles:
        cols.append(names[int(r[1:])] if r.startswith('c') else r)
    custom = [c for c in cols if c in CUSTOM_NAMES]
    template = None
    if template_mode:
        order = draw(st.permutations(custom))
        template = draw(st.sampled_from([' '.join('{%s}' % c for c in order), ' - '.join('{%s}' % c for c in order), '{%s}' % order[0],
                                         '%s (%s)' % ('{%s}' % order[0], '{%s}' % order[-1])]))
    return {'cols': cols, 'template': template,
            'datefmt': draw(st.sampled_from(DATE_FORMATS)),
            'sign': draw(st.sampled_from(['', '', '-', '+', 'override'])),
            'dialect': draw(st.sampled_from(['comma', 'comma', ';', '|', ':', 'tab', 'regex', 'tabchar', 'space'])), 'regex_strict': draw(st.booleans()),
            'header': draw(st.booleans()) or draw(st.booleans()),
            'decimal': draw(st.sampled_from(['.', '.', ','])),
            'spell': draw(st.integers(0, 2 ** 16)),
            'source': draw(st.sampled_from(['Bank', 'alice-amex', 'Chase Card']))}


def fmt_string(lay):
    toks = []
    sp = lay['spell']
    for i, c in enumerate(lay['cols']):
        bit = (sp >> i) & 1
        if c == 'skip':
            toks.append('{*}' if bit else '{_}')
        elif c == 'date':
            toks.append('{%s:%s}' % ('Date' if bit else 'date', lay['datefmt']))
        elif c == 'amount':
            toks.append('{%s%s}' % (lay['sign'] if lay['sign'] in '+-' else '', 'AMOUNT' if bit else 'amount'))
        else:
            toks.append('{%s}' % (c.capitalize() if bit and c not in CUSTOM_NAMES else c))
    return (', ' if (sp >> 15) & 1 else ',').join(toks)


def delimiter_setting(lay):
    d = lay['dialect']
    if d == 'comma':
        return None
    if d == 'tab':
        return 'tab'
    if d == 'tabchar':
        return '\t'  # the TAB character itself rather than the keyword
    if d == 'space':
        return ' '
    if d == 'regex':
        n = len(lay['cols'])
        groups = [r'([^|]*)'] * n
        if lay.get('regex_strict') and lay['datefmt'][:2] in ('%d', '%m', '%Y', '%y'):
            # a stricter pattern, as users write them: the date column must start with a digit - the header row does not match it at all
            groups[lay['cols'].index('date')] = r'(\s*\d[^|]*)'
        return 'regex:^' + r'\|'.join(groups) + '$'
    return d


amount_style = st.fixed_dictionaries({'thousands': st.booleans(), 'symbol': st.sampled_from(['', '', '$', '€', '£', '¥']), 'neg': st.sampled_from(['-', '-', '()', '-']),
                                      'plus': st.booleans(), 'pad': st.sampled_from(['', '', ' ', '  ']), 'decimals': st.sampled_from([2, 2, 1, 0])})


def render_amount(cents, style, decimal, sub=None):
    """-> (cell text, exact float value) for a non-zero integer number of cents (plus an optional third decimal digit `sub`: sub-cent amounts)."""
    a = abs(cents)
    whole, frac = divmod(a, 100)
    if sub:
        digits, canon = f'{whole}.{frac:02d}{sub}', f'{whole}.{frac:02d}{sub}'
    elif style['decimals'] == 0 and frac == 0:
        digits, canon = str(whole), str(whole)
    elif style['decimals'] == 1 and frac % 10 == 0:
        digits, canon = f'{whole}.{frac // 10}', f'{whole}.{frac // 10}'
    else:
        digits, canon = f'{whole}.{frac:02d}', f'{whole}.{frac:02d}'
    ip, _, fp = digits.partition('.')
    if style['thousands'] and len(ip) > 3:
        sep = ',' if decimal == '.' else '.'
        ip = f'{int(ip):,}'.replace(',', sep)
    text = ip + ((decimal + fp) if fp else '')
    value = float(canon)
    if cents < 0:
        value = -value
        if style['neg'] == '()':
            text = f"({style['symbol']}{text})"
        else:
            text = f"-{style['symbol']}{text}"
    else:
        text = f"{'+' if style['plus'] and not style['symbol'] else ''}{style['symbol']}{text}"
    return style['pad'] + text + style['pad'], value


BAD_AMOUNTS = ['', ' ', 'abc', '1x2', '--5', 'N/A', '$', '()', '1,2,3.4.5x', '0', '0.00', '-0.0', '(0.00)', '$0', '0,00', 'nan', 'inf', '-Infinity', 'NaN', '+inf']
BAD_DATES = ['', 'not a date', '13/45/2024', '2024-02-30', '00/00/0000', '31-31-2024', 'yesterday', '2024/99/99', '99999999', '20240309', '2024-03-10T08:30', '2024-W10-3',
             '2024-03-10 08:30:00+00:00', '03/10/24x', '2024-3', '10.3.2024.', '1/2/3/4']


import string as _string
# any printable text a cell can carry (no lone carriage return: text-mode reading folds it into a newline, and no statement has one inside a cell)
FREE_TEXT = st.text(alphabet=_string.ascii_letters + _string.digits + " .,;:|*#&'\"()[]{}?+^$\\/-_!@%=<>~`\t\n" + 'éÉßİ日本☕\u00a0\u2028\u2029\u0085\x0b\x0c\x1c\x1d\x1e', max_size=24)


@st.composite
def row(draw, lay):
    kind = draw(st.sampled_from(['good', 'good', 'good', 'good', 'short', 'bad_date', 'bad_amount', 'empty_desc', 'blank', 'long']))
    d = draw(st.dates(min_value=date(2020, 1, 1), max_value=date(2026, 12, 31)))
    cents = draw(st.one_of(st.integers(-2_000_000, 2_000_000), st.sampled_from([1, -1, 99, 100, -100, 123456, 100000000, -99999999]))) or 7
    sub = draw(st.sampled_from([None] * 8 + [1, 4, 5, 9]))
    if sub and draw(st.booleans()):
        cents = draw(st.sampled_from([0, 0, 1, -1, 99]))  # amounts below one cent are amounts too: 0.004, 0.019, -0.011
    r = {'kind': kind, 'date': d.isoformat(), 'date_pad': draw(st.sampled_from(['', '', '', ' ', '  '])), 'date_tail': draw(st.sampled_from(['', '', '', '', '', '', ' Wed', ' 99', ' x y'])), 'unpadded': draw(st.booleans()), 'cents': cents, 'sub': sub, 'style': draw(amount_style),
         'desc': draw(st.one_of(st.sampled_from(DESC_TEXT), st.sampled_from(DESC_TEXT), st.sampled_from(DESC_TEXT), FREE_TEXT)), 'customs': {c: draw(st.sampled_from(DESC_TEXT + ['', ' ', 'WIRE', 'ACH-OUT'])) for c in lay['cols'] if c in CUSTOM_NAMES},
         'loc': draw(st.sampled_from(['', 'WA', 'Seattle, WA', ' NY '])), 'skip': draw(st.sampled_from(['', 'x', '1,5', 'ignored "q"']))}
    if kind == 'short':
        r['cut'] = draw(st.integers(0, len(lay['cols']) - 1))
    if kind == 'bad_date':
        r['bad'] = draw(st.sampled_from(BAD_DATES))
    if kind == 'bad_amount':
        r['bad'] = draw(st.sampled_from(BAD_AMOUNTS))
    if kind == 'long':
        r['extra'] = draw(st.integers(1, 3))
    return r


@st.composite
def case_st(draw):
    lay = draw(layout())
    rows = draw(st.lists(row(lay), min_size=0, max_size=20))
    return {'layout': lay, 'rows': rows}


def clean_for_dialect(text, dialect):
    """line-based dialects cannot carry a newline or the separator inside a cell"""
    if dialect == 'regex':
        return text.replace('\n', ' ').replace('|', '/')
    return text


def date_cell(r, fmt):
    d = date.fromisoformat(r['date'])
    s = d.strftime(fmt)
    if r['unpadded'] and fmt in ('%m/%d/%Y', '%d/%m/%Y', '%m/%d/%y', '%d.%m.%Y'):
        sep = '/' if '/' in fmt else '.'
        parts = s.split(sep)
        s = sep.join([str(int(parts[0])), str(int(parts[1])), parts[2]])
    elif r['unpadded'] and fmt == '%Y-%m-%d':
        s = f'{d.year}-{d.month}-{d.day}'  # %m and %d accept one digit
    return s


def build(case):
    """-> (file text, source dict, expected transactions)."""
    lay = case['layout']
    dialect = lay['dialect']
    lines_cells = []
    expected = []
    classes = set()
    max_needed = max(i for i, c in enumerate(lay['cols']) if c != 'skip')
    core_max = max(i for i, c in enumerate(lay['cols']) if c in ('date', 'amount', 'description', 'location'))
    if lay['header']:
        lines_cells.append(['H%d' % i for i in range(len(lay['cols']))])
    for r in case['rows']:
        if r['kind'] == 'blank':
            lines_cells.append(None)
            continue
        amt_text, value = render_amount(r['cents'], r['style'], lay['decimal'], r.get('sub'))
        cells = []
        desc_cell = clean_for_dialect(r['desc'], dialect)
        customs = {k: ('' if r['kind'] == 'empty_desc' else clean_for_dialect(v, dialect)) for k, v in r['customs'].items()}
        for c in lay['cols']:
            if c == 'date':
                cells.append(r['bad'] if r['kind'] == 'bad_date' else r.get('date_pad', '') + date_cell(r, lay['datefmt']) + r.get('date_tail', '') + r.get('date_pad', ''))
            elif c == 'amount':
                cells.append(r['bad'] if r['kind'] == 'bad_amount' else amt_text)
            elif c == 'description':
                cells.append('   ' if r['kind'] == 'empty_desc' else desc_cell)
            elif c == 'location':
                cells.append(r['loc'])
            elif c == 'skip':
                cells.append(clean_for_dialect(r['skip'], dialect))
            else:
                cells.append('' if r['kind'] == 'empty_desc' else customs[c])
        if r['kind'] == 'short':
            cells = cells[:r['cut']]
            if core_max < r['cut'] <= max_needed:
                classes.add('short_row_before_capture')
        if r['kind'] == 'long' and dialect != 'regex':  # the generated regex is anchored to exactly n columns
            cells = cells + ['extra'] * r['extra']
        lines_cells.append(cells)
        # ---- expectation by construction
        good = r['kind'] in ('good', 'long', 'empty_desc') or (r['kind'] == 'short' and r['cut'] > max_needed and dialect != 'regex')
        row_date = date.fromisoformat(r['date'])
        if r['kind'] != 'bad_date' and r.get('date_tail'):
            # text after the date inside the date cell ("01/15/2025 Wed"): a format without blanks reads the first word; a format WITH blanks must match the whole cell
            cell = (date_cell(r, lay['datefmt']) + r['date_tail']).strip()
            try:
                row_date = datetime.strptime(cell.split()[0] if ' ' not in lay['datefmt'] else cell, lay['datefmt']).date()
            except (ValueError, IndexError):
                good = False
        if r['kind'] == 'bad_date':
            # "a date matching the date format": the format language is strptime's, so a generated odd spelling is bad iff strptime rejects it;
            # a spelling that happens to be a date in this format makes the row well-formed with that date
            cell = r['bad'].strip()
            try:
                row_date = datetime.strptime(cell.split()[0] if (' ' not in lay['datefmt'] and cell) else cell, lay['datefmt']).date()
                good = True
            except (ValueError, IndexError):
                pass
        if lay['template'] is not None:
            desc = lay['template'].format(**{k: v.strip() for k, v in customs.items()}) if r['kind'] != 'empty_desc' else lay['template'].format(**{k: '' for k in customs})
        else:
            desc = desc_cell.strip() if r['kind'] != 'empty_desc' else ''
        if r['kind'] == 'bad_amount' and r['bad'].strip().lower().lstrip('+-') in ('nan', 'inf', 'infinity'):
            classes.add('nonfinite_amount')
        if not good or not desc:
            continue
        if lay['sign'] == '+':
            value = abs(value)
        elif lay['sign'] in ('-', 'override'):
            value = -value
        exp = {'date': datetime.combine(row_date, datetime.min.time()), 'raw_description': desc, 'amount': value, 'source': lay['source'],
               'field': ({k: v.strip() for k, v in customs.items()} or None), 'is_credit': value < 0}
        if 'location' in lay['cols'] and r['loc'].strip():
            exp['location'] = r['loc'].strip()
        expected.append(exp)
    # ---- write
    buf = io.StringIO()
    if dialect == 'regex':
        for cells in lines_cells:
            buf.write(('' if cells is None else '|'.join(cells)) + '\n')
    else:
        delim = {'comma': ',', 'tab': '\t', 'tabchar': '\t', 'space': ' '}.get(dialect, dialect)
        w = csv.writer(buf, delimiter=delim, lineterminator='\n')
        for cells in lines_cells:
            if cells is None:
                buf.write('\n')
            else:
                w.writerow(cells)
    src = {'name': lay['source'], 'file': 'data/x.csv', 'format': fmt_string(lay)}
    if lay['template'] is not None:
        src['columns'] = {'description': lay['template']}
    dl = delimiter_setting(lay)
    if dl is not None:
        src['delimiter'] = dl
    if not lay['header']:
        src['has_header'] = False
    elif (lay['spell'] >> 14) & 1:
        src['has_header'] = True
    if lay['decimal'] == ',':
        src['decimal_separator'] = ','
    if lay['sign'] == 'override':
        src['negate_amount'] = True
    return buf.getvalue(), src, expected, classes


def check(case, stats: Stats):
    from tally.config_loader import resolve_source_format
    from tally.parsers import parse_generic_csv
    text, src, expected, classes = build(case)
    lay = case['layout']
    path = obs.write_rules(text, 'x.csv')
    try:
        resolved = resolve_source_format(dict(src))
        spec = resolved['_format_spec']
        got = parse_generic_csv(path, spec, [], source_name=src['name'], decimal_separator=src.get('decimal_separator', '.'))
    except Exception as e:
        raise Violation(f'parsing raised {type(e).__name__}: {e}\nsource: {src}\nfile:\n{text}', case, 'crash:' + type(e).__name__)
    finally:
        try:
            os.remove(path)
            os.rmdir(os.path.dirname(path))
        except OSError:
            pass

    def show(t):
        return {k: t.get(k) for k in ('date', 'raw_description', 'amount', 'source', 'field', 'location', 'is_credit')}
    if len(got) != len(expected):
        raise Violation(f'{len(expected)} well-formed rows but {len(got)} transactions\nsource: {src}\nfile:\n{text}\nexpected: {[ (e["raw_description"], e["amount"]) for e in expected]}\n'
                        f'got: {[(g["raw_description"], g["amount"]) for g in got]}', case, 'row-count')
    for i, (e, g) in enumerate(zip(expected, got)):
        for k, v in e.items():
            gv = g.get(k)
            bad = (gv != v) or (k == 'amount' and (math.copysign(1, gv) != math.copysign(1, v)))
            if bad:
                raise Violation(f'transaction {i}: {k} = {gv!r}, the row says {v!r}\nsource: {src}\nfile:\n{text}\nexpected {show(e)}\ngot      {show(g)}', case, 'field:' + k)
        if not math.isfinite(g['amount']) or g['amount'] == 0:
            raise Violation(f'transaction {i} has amount {g["amount"]!r}', case, 'amount-nonfinite')
    kinds = {r['kind'] for r in case['rows']}
    if expected and (kinds - {'good', 'long'}):
        classes.add('good_and_malformed')
    if any(any(ch in r['desc'] for ch in ',;|:\n\t"') for r in case['rows']) and lay['dialect'] != 'regex':
        classes.add('embedded_delim_or_newline')
    classes.add({'comma': 'dialect_comma', 'tab': 'dialect_tab', 'regex': 'dialect_regex', 'tabchar': 'dialect_whitespace_char', 'space': 'dialect_whitespace_char'}.get(lay['dialect'], 'dialect_char'))
    if lay['dialect'] == 'regex' and lay.get('regex_strict') and lay['header']:
        classes.add('regex_header_not_matching')
    if lay['decimal'] == ',':
        classes.add('decimal_comma')
    if lay['sign'] in ('-', 'override'):
        classes.add('sign_negate')
    if lay['sign'] == '+':
        classes.add('sign_abs')
    if lay['template'] is not None:
        classes.add('template_mode')
    if not lay['header']:
        classes.add('no_header')
    nontrivial = bool(classes & {'good_and_malformed', 'embedded_delim_or_newline', 'dialect_tab', 'dialect_regex', 'dialect_char', 'decimal_comma', 'sign_negate', 'sign_abs'})
    stats.case(jhash(case), nontrivial, classes, sample={'source': src, 'file': text[:300], 'expected': len(expected)})


def replay(case):
    try:
        check(case, Stats())
    finally:
        obs.cleanup()


def shards(tier):
    n = 1000 if tier == 'quick' else 8000
    return [('random', n)] * 16


def run_shard(kind, n, seed, tier):
    s = Stats()
    try:
        campaign(case_st(), check, n, seed, s, tier)
    finally:
        obs.cleanup()
    return s
