"""C13 - The report's in-browser classification equals the command-line classification (Python vs JS differential)."""
from __future__ import annotations

import itertools
import json
import os
import subprocess

from hypothesis import strategies as st

from tv.harness import TALLY_SRC, HarnessError, Stats, Violation, campaign, jhash

ID = 'C13'
LEVEL = 'exploration'
RULE = ('Differential: classification.py (categorize_amount, is_excluded_from_spending, is_income/transfer/investment, '
        'calculate_cash_flow) against the same-named functions of the CURRENT spending_report.js executed by node in a vm '
        'context. Cases = exhaustive product {ordered subsets of the 3 special tags} x {4 letter-case styles} x {4 other-tag '
        'shapes incl. None/missing} x {13 amount classes} plus Hypothesis-generated (amount, tag list, flow triple), plus ledgers '
        '(2-6 transactions of shared merchants): analyze_transactions totals = sums of the script\'s per-transaction buckets. '
        'Non-trivial = a special tag in non-lower case, or two special tags, or a non-positive amount; distinct by case hash.')
ASSUMPTIONS = ['node vm with stubbed Vue/document stands in for the browser JS engine (same ECMAScript number semantics)',
               'non-finite amounts are outside the domain (JSON cannot carry them into the report either)']
REQUIRED_CLASSES = ['two_special', 'nonlower_special', 'nonpositive', 'tags_null', 'host_object_property_tag', 'ledger_merchant_with_mixed_special_tags']

SPECIAL = ['income', 'investment', 'transfer']
KEYMAP = {'income': 'income', 'investment': 'investment', 'transfer_in': 'transferIn', 'transfer_out': 'transferOut',
          'spending': 'spending', 'credits': 'credits'}
JS_DRIVER = os.path.join(os.path.dirname(os.path.dirname(os.path.abspath(__file__))), 'drv', 'node_classify.js')
JS_FILE = os.path.join(TALLY_SRC, 'tally', 'spending_report.js')


class Node:
    def __init__(self):
        try:
            self.p = subprocess.Popen(['node', JS_DRIVER, JS_FILE], stdin=subprocess.PIPE, stdout=subprocess.PIPE,
                                      stderr=subprocess.PIPE, text=True, bufsize=1)
        except OSError as e:
            raise HarnessError(f'node not runnable: {e}')
        line = self.p.stdout.readline()
        if not line:
            err = self.p.stderr.read()
            # the report's script does not even load: every browser-side figure is lost
            raise Violation('spending_report.js failed to load under node: ' + err[-600:], {'kind': 'load'}, 'js-load')
        self.mode = json.loads(line)['mode']

    def ask(self, cases):
        self.p.stdin.write(json.dumps(cases) + '\n')
        self.p.stdin.flush()
        line = self.p.stdout.readline()
        if not line:
            raise HarnessError('node died: ' + self.p.stderr.read()[-500:])
        return json.loads(line)

    def close(self):
        try:
            self.p.stdin.close()
            self.p.wait(timeout=5)
        except Exception:
            self.p.kill()


_node = None


def node():
    global _node
    if _node is None:
        _node = Node()
    return _node


def style(tag, s):
    if s == 0:
        return tag
    if s == 1:
        return tag.upper()
    if s == 2:
        return tag.capitalize()
    return ''.join(ch.upper() if i % 2 else ch for i, ch in enumerate(tag))


def fstr(x):
    """Canonical text of a float as JS String(x) would print the same double, compared numerically below."""
    return float(x)


def compare(case, js):
    from tally import classification as C
    amt = case['amount']
    tags = None if (case.get('tags_missing') or case.get('tags') is None) else list(case['tags'])
    if 'error' in js:
        py_err = None
        try:
            C.categorize_amount(amt, tags)
        except Exception as e:  # both sides rejecting the same input is agreement
            py_err = e
        if py_err is None:
            raise Violation(f'JS raised {js["error"]} where Python returns a value', case, 'js-raises')
        return
    try:
        py = C.categorize_amount(amt, tags)
        py_excl = C.is_excluded_from_spending(tags)
        py_flags = (C.is_income(tags), C.is_transfer(tags), C.is_investment(tags))
    except Exception as e:
        raise Violation(f'Python raised {type(e).__name__}: {e} where JS returns a value', case, 'py-raises')
    jcat = {k: float(v) for k, v in js['cat'].items()}
    for pk, jk in KEYMAP.items():
        if jk not in jcat:
            raise Violation(f'JS result lacks key {jk}', case, 'keys')
        if float(py[pk]) != jcat[jk]:
            raise Violation(f'bucket {pk}: python {py[pk]!r} vs JS {jcat[jk]!r} for amount={amt!r} tags={tags!r}', case, 'bucket')
    if bool(py_excl) != bool(js['excl']):
        raise Violation(f'excluded-from-spending: python {py_excl} vs JS {js["excl"]} for tags={tags!r}', case, 'excluded')
    if py_flags != (js['inc'], js['tr'], js['inv']):
        raise Violation(f'is_income/transfer/investment: python {py_flags} vs JS {(js["inc"], js["tr"], js["inv"])} tags={tags!r}',
                        case, 'flags')
    if case.get('flow'):
        pf = C.calculate_cash_flow(*case['flow'])
        if float(js['flow']) != pf:
            raise Violation(f'cash flow: python {pf!r} vs JS {js["flow"]} for {case["flow"]}', case, 'cashflow')


def classify(case):
    tags = case.get('tags') or []
    sp = [t for t in tags if isinstance(t, str) and t.lower() in SPECIAL]
    cl = set()
    if len({t.lower() for t in sp}) >= 2:
        cl.add('two_special')
    if any(t != t.lower() for t in sp):
        cl.add('nonlower_special')
    if case['amount'] <= 0:
        cl.add('nonpositive')
    if case.get('tags') is None:
        cl.add('tags_null')
    if case.get('tags_missing'):
        cl.add('tags_missing')
    if any(isinstance(t, str) and t.lower() in ('constructor', '__proto__', 'tostring', 'hasownproperty', 'valueof') for t in tags):
        cl.add('host_object_property_tag')
    return cl


def run_batch(cases, stats, sample_every=0):
    res = node().ask(cases)
    for i, (c, r) in enumerate(zip(cases, res)):
        compare(c, r)
        cl = classify(c)
        stats.case(jhash(c), bool(cl & {'two_special', 'nonlower_special', 'nonpositive'}), cl,
                   sample=c if (sample_every and i % sample_every == 0) else None)


AMOUNTS = [-1e308, -1e15, -1234.56, -0.01, -5e-324, -0.0, 0.0, 5e-324, 0.005, 0.1 + 0.2, 19.99, 3.0, 1e308]


def exhaustive_cases():
    for r in range(0, 4):
        for subset in itertools.permutations(SPECIAL, r):
            for s in range(4):
                sp = [style(t, s) for t in subset]
                for shape in range(4):
                    if shape == 0:
                        tagsets = [sp]
                    elif shape == 1:
                        # ordinary tags, including names that are properties of every JavaScript / Python object (a lookup table keyed by tag must not see them)
                        tagsets = [['groceries'] + sp, sp + ['Übung', 'INCOMES'], sp + ['constructor'], ['__proto__'] + sp, sp + ['toString', 'hasOwnProperty', 'valueOf'],
                                   sp + ['__class__', 'items', 'prototype', 'length']]
                    elif shape == 2:
                        tagsets = [sp + sp] if sp else [None]
                    else:
                        tagsets = [None] if not sp else []
                    for tags in tagsets:
                        for a in AMOUNTS:
                            yield {'amount': a, 'tags': tags}
    for a in AMOUNTS:
        yield {'amount': a, 'tags': None, 'tags_missing': True}


tag_st = st.one_of(
    st.tuples(st.sampled_from(SPECIAL), st.integers(0, 3)).map(lambda p: style(*p)),
    st.tuples(st.sampled_from(SPECIAL), st.lists(st.booleans(), min_size=10, max_size=10)).map(
        lambda p: ''.join(c.upper() if b else c for c, b in zip(p[0], p[1]))),
    st.sampled_from(['food', 'Recurring', 'incomes', ' income', 'income ', 'INCOMĖ', 'İncome', 'transﬁer',
                     'investment!', '', 'Tränsfer', 'TRANSFER​', 'constructor', '__proto__', 'Constructor', 'toString', 'hasOwnProperty', '__defineGetter__', 'isPrototypeOf',
                     'valueOf', 'prototype', '__class__', 'keys',
                     # letter forms that Unicode case FOLDING (not lower-casing) maps onto the special words: long s, st ligatures, Kelvin sign, dotless / dotted i
                     'tran\u017ffer', 'TRAN\u017fFER', 'inve\u017ftment', 'inve\ufb06ment', 'inve\ufb05ment', 'INVE\ufb06MENT', '\u0131ncome', 'in\u212aome', 'transfe\u027c', 'ＩＮＣＯＭＥ']),
    st.text(max_size=6),
)
amount_st = st.one_of(
    st.integers(-10 ** 7, 10 ** 7).map(lambda c: c / 100.0),
    st.floats(allow_nan=False, allow_infinity=False),
    st.sampled_from(AMOUNTS),
    st.integers(-10 ** 6, 10 ** 6).map(float),
)
flow_st = st.lists(st.one_of(st.floats(allow_nan=False, allow_infinity=False, min_value=-1e12, max_value=1e12),
                             st.integers(0, 10 ** 7).map(lambda c: c / 100.0)), min_size=3, max_size=3)
case_st = st.fixed_dictionaries({'amount': amount_st, 'tags': st.one_of(st.none(), st.lists(tag_st, max_size=5)),
                                 'flow': st.one_of(st.none(), flow_st)})
batch_st = st.lists(case_st, min_size=40, max_size=40)


def check_batch(batch, stats):
    try:
        run_batch(batch, stats, sample_every=997)
    except Violation as v:
        # report the single offending case, not the batch
        raise


# ------------------------------------------------------------------------------------------------
# ledgers: the totals the command-line analysis prints for a LIST of transactions are the sums, over the transactions, of what the report's
# script computes for each transaction's own amount and own tag list
# ------------------------------------------------------------------------------------------------
ledger_txn = st.fixed_dictionaries({'merchant': st.sampled_from(['VENMO', 'VENMO', 'GROCER', 'Payroll']),
                                    'amount': st.integers(-10 ** 6, 10 ** 6).filter(bool).map(lambda c: c / 100.0),
                                    'tags': st.lists(st.one_of(st.sampled_from(SPECIAL + ['Income', 'TRANSFER', 'food', 'friends']), tag_st), max_size=3),
                                    'month': st.integers(1, 12)})
ledger_st = st.fixed_dictionaries({'kind': st.just('ledger'), 'txns': st.lists(ledger_txn, min_size=2, max_size=6)})
TOTALS = {'income_total': 'income', 'investment_total': 'investment', 'spending_total': 'spending', 'credits_total': 'credits', 'transfers_in': 'transferIn',
          'transfers_out': 'transferOut'}


def check_ledger(case, stats):
    import math
    from datetime import datetime
    from tally.analyzer import analyze_transactions
    txns = [{'merchant': t['merchant'], 'amount': t['amount'], 'tags': list(t['tags']), 'category': 'C', 'subcategory': 'S', 'date': datetime(2024, t['month'], 5),
             'description': t['merchant'], 'raw_description': t['merchant'], 'source': 'X'} for t in case['txns']]
    try:
        res = analyze_transactions(txns)
    except Exception as e:
        raise Violation(f'analyze_transactions raised {type(e).__name__}: {e}', case, 'py-raises')
    js = node().ask([{'amount': t['amount'], 'tags': list(t['tags'])} for t in case['txns']])
    sums = {k: 0.0 for k in TOTALS.values()}
    for r in js:
        if 'error' in r:
            raise Violation(f'JS raised {r["error"]} for a transaction of the ledger', case, 'js-raises')
        for k in sums:
            sums[k] += float(r['cat'][k])
    for pk, jk in TOTALS.items():
        if not math.isclose(res[pk], sums[jk], rel_tol=1e-9, abs_tol=1e-6):
            raise Violation(f'{pk}: the command-line analysis prints {res[pk]!r}, the report script sums {sums[jk]!r} over the same transactions '
                            f'{[(t["merchant"], t["amount"], t["tags"]) for t in case["txns"]]}', case, 'ledger-total')
    flow = node().ask([{'amount': 1.0, 'tags': [], 'flow': [sums['income'], sums['spending'], sums['credits']]}])[0]
    if not math.isclose(res['cash_flow'], float(flow['flow']), rel_tol=1e-9, abs_tol=1e-6):
        raise Violation(f'cash flow: the command-line analysis prints {res["cash_flow"]!r}, the report script {flow["flow"]!r}', case, 'ledger-cashflow')
    by_m = {}
    for t in case['txns']:
        by_m.setdefault(t['merchant'], []).append({x.lower() for x in t['tags'] if isinstance(x, str)} & set(SPECIAL))
    mixed = any(len({frozenset(x) for x in v}) > 1 for v in by_m.values())
    stats.case(jhash(case), mixed, {'ledger'} | ({'ledger_merchant_with_mixed_special_tags'} if mixed else set()), sample=case if mixed else None)


def replay(case):
    global _node
    try:
        if case.get('kind') == 'load' if isinstance(case, dict) else False:
            node()
            return
        if isinstance(case, dict) and case.get('kind') == 'ledger':
            check_ledger(case, Stats())
            return
        for c in (case if isinstance(case, list) else [case]):
            r = node().ask([c])[0]
            compare(c, r)
    finally:
        if _node is not None:  # never leave a node process open in the parent: forked workers would share its pipes
            _node.close()
            _node = None


def shards(tier):
    n = 300 if tier == 'quick' else 5000
    return [('exhaustive', 0)] + [('random', n)] * 12 + [('ledger', n * 4)] * 3


def run_shard(kind, n, seed, tier):
    s = Stats()
    try:
        if kind == 'exhaustive':
            cases = list(exhaustive_cases())
            for i in range(0, len(cases), 500):
                run_batch(cases[i:i + 500], s, sample_every=401)
            s.exhaustive['special-tag permutations x case styles x other-tag shapes x 13 amount classes'] = True
        elif kind == 'ledger':
            campaign(ledger_st, check_ledger, n, seed, s, tier)
        else:
            campaign(batch_st, check_batch, n, seed, s, tier)
            # shrunk batch -> keep only the failing element(s)
            for v in s.violations:
                if isinstance(v['case'], list):
                    for c in v['case']:
                        try:
                            replay(c)
                        except Violation as vv:
                            v['case'], v['message'], v['klass'] = c, vv.message, vv.klass
                            break
    except Violation as v:
        s.violation(v)
    finally:
        _close_node()
    return s


def _close_node():
    global _node
    if _node is not None:
        _node.close()
        _node = None
