"""C09 - most_specific mode picks the most specific matching rule, whatever the order."""
from __future__ import annotations

import itertools

from hypothesis import strategies as st

from tv import lang, obs, rules as R
from tv.harness import Stats, Violation, campaign, jhash

ID = 'C09'
LEVEL = 'exploration'
RULE = ('Rule sets in most_specific mode assembled from components with known rank ingredients (priority in {absent,0,10,50,51,'
        '100,-1}; 1-3 pattern calls with texts of controlled length, including texts that contain constraint keywords such as '
        'HOLIDAY INN / PAYDAY LOAN / AMOUNT DUE / SOURCE; 0-3 constraint kinds among amount/date/month/year/day/weekday/source/'
        'field; exact ties; duplicate match text with different priorities; tag-only rules; rules with/without subcategory; '
        'deliberately false rules), evaluated on a transaction built so the intended rules match, under ALL permutations for '
        '<=5 rules (20 generated permutations above). Oracle: rank tuple computed from the expression structure under every '
        'admissible reading of the statement; asserted when all readings agree on the top set. Non-trivial = >=2 categorizing '
        'rules match with ranks differing in a component other than position; distinct by hash of the rule set.')
ASSUMPTIONS = ['admissible readings: constraint kinds = 8 keywords (weekday once or as day+weekday) or 4 groups; pattern text = all string '
               'literals or only pattern-call arguments; a case is asserted only where all readings agree (others counted as ambiguous)',
               'pattern texts contain no escapes or quotes so that source length = value length']
REQUIRED_CLASSES = ['mode_switch_on_same_file', 'kind_used_twice', 'priority_decides', 'pattern_count_decides', 'constraints_decide', 'length_decides', 'exact_tie', 'keyword_in_text',
                    'same_match_diff_priority', 'subcategory_from_other_rule']

DESC = 'HOLIDAY INN PAYDAY LOAN AMOUNT DUE SOURCE UBER EATS 4521 FIELD TRIP LOWE\'S HOME 24" MON'
TXN = {'description': DESC, 'amount': 120.5, 'date': '2024-06-15', 'field': {'type': 'WIRE', 'memo': 'REF 77'}, 'source': 'Amex', 'location': 'WA'}
# 2024-06-15 is a Saturday -> weekday 5
TEXTS = ["LOWE'S HOME", "LOWE'S", 'S HOME 24" MON', '24" MON', 'UBER', 'UBER EATS', 'HOLIDAY INN', 'HOLIDAY', 'PAYDAY LOAN', 'PAYDAY', 'AMOUNT DUE', 'SOURCE', 'EATS', 'INN', '4521', 'LOAN AMOUNT',
         'FIELD TRIP', 'DUE', 'E', 'HOLIDAY INN PAYDAY LOAN']
NOT_IN = ['LYFT', 'NETFLIX', 'MONDAY']
TRUE_CONSTRAINTS = {
    'amount': [['cmp', ['name', 'amount'], [['>', ['num', 100]]]], ['cmp', ['txn', 'amount'], [['<', ['num', 500]]]]],
    'date': [['cmp', ['name', 'date'], [['>=', ['str', '2024-01-01']]]], ['cmp', ['name', 'date'], [['<=', ['str', '2024-12-31']]]]],
    'month': [['cmp', ['name', 'month'], [['==', ['num', 6]]]], ['cmp', ['name', 'month'], [['>=', ['num', 1]]]], ['cmp', ['name', 'month'], [['<=', ['num', 12]]]]],
    'year': [['cmp', ['name', 'year'], [['==', ['num', 2024]]]], ['cmp', ['name', 'year'], [['>', ['num', 2000]]]]],
    'day': [['cmp', ['name', 'day'], [['==', ['num', 15]]]], ['cmp', ['name', 'day'], [['<', ['num', 20]]]]],
    'weekday': [['cmp', ['name', 'weekday'], [['==', ['num', 5]]]]],
    'source': [['cmp', ['name', 'source'], [['==', ['str', 'Amex']]]]],
    'field': [['cmp', ['field', 'type'], [['==', ['str', 'WIRE']]]], ['match', 'contains', ['field', 'memo'], 'REF']],
}
FALSE_CONSTRAINTS = [['cmp', ['name', 'amount'], [['>', ['num', 1000]]]], ['cmp', ['name', 'month'], [['==', ['num', 7]]]],
                     ['cmp', ['name', 'source'], [['==', ['str', 'Chase']]]], ['match', 'contains', None, 'LYFT']]
KINDS = list(TRUE_CONSTRAINTS)
GROUP = {'amount': 'amount', 'date': 'date', 'month': 'date', 'year': 'date', 'day': 'date', 'weekday': 'date', 'source': 'source', 'field': 'field'}


@st.composite
def pattern_call(draw):
    fn = draw(st.sampled_from(['contains', 'contains', 'contains', 'normalized', 'startswith', 'anyof', 'regex']))
    if fn == 'startswith':
        return ['match', 'startswith', None, draw(st.sampled_from(['HOLIDAY', 'HOLIDAY INN', 'HOLIDAY INN PAYDAY']))]
    if fn == 'anyof':
        return ['anyof', [draw(st.sampled_from(TEXTS))] + draw(st.lists(st.sampled_from(TEXTS + NOT_IN), max_size=2))]
    # naming the description explicitly is the same condition (and `description` is no constraint kind)
    return ['match', fn, draw(st.sampled_from([None, None, None, ['name', 'description'], ['name', 'Description'], ['txn', 'description']])), draw(st.sampled_from(TEXTS))]


def respell(e, style):
    """the language ignores the letter case of function names and primitives; so must the ranking"""
    f = {1: str.upper, 2: str.capitalize}[style]
    if isinstance(e, list) and e and isinstance(e[0], str):
        if e[0] == 'match':
            return ['match', f(e[1]), respell(e[2], style) if e[2] is not None else None, e[3]]
        if e[0] == 'anyof':
            return ['anyof', e[1], f('anyof')]
        if e[0] == 'name' and e[1].lower() in GROUP:
            return ['name', f(e[1])]
        if e[0] == 'field' and len(e) == 2:
            return ['field', e[1], f('field')]
        return [e[0]] + [respell(x, style) for x in e[1:]]
    if isinstance(e, list):
        return [respell(x, style) for x in e]
    return e


@st.composite
def c09_rule(draw, idx):
    pats = draw(st.lists(pattern_call(), min_size=1, max_size=3))
    kinds = draw(st.lists(st.sampled_from(KINDS), max_size=3, unique=True))
    cons = [draw(st.sampled_from(TRUE_CONSTRAINTS[k])) for k in kinds]
    # the same KIND of constraint used more than once (ranges) still counts as one kind
    for k in kinds:
        if len(TRUE_CONSTRAINTS[k]) > 1 and draw(st.integers(0, 3)) == 0:
            cons += [c for c in draw(st.lists(st.sampled_from(TRUE_CONSTRAINTS[k]), min_size=1, max_size=2)) if c not in cons]
    parts = pats + cons
    if draw(st.integers(0, 9)) == 0:
        parts = parts + [draw(st.sampled_from(FALSE_CONSTRAINTS))]
    parts = draw(st.permutations(parts))
    match = parts[0] if len(parts) == 1 else ['and', list(parts)]
    style = draw(st.sampled_from([0, 0, 0, 1, 2]))
    if style:
        match = respell(match, style)
    tag_only = draw(st.integers(0, 9)) < 2
    return {'name': f'R{idx}', 'match': match, 'category': '' if tag_only else f'Cat{idx}',
            'subcategory': draw(st.sampled_from(['', '', f'Sub{idx}'])), 'merchant': None,
            'priority': draw(st.sampled_from([None, None, None, 0, 10, 50, 51, 100, -1])),
            'tags': [f't{idx}'] if (tag_only or draw(st.booleans())) else [], 'lets': [], 'fields': []}


@st.composite
def rule_set(draw):
    n = draw(st.integers(2, 6))
    rules = [draw(c09_rule(i)) for i in range(n)]
    twist = draw(st.integers(0, 5))
    if twist == 0:  # exact duplicate rank: same match text, same priority, different category
        src = draw(st.sampled_from(rules))
        rules.append(dict(src, name=f'R{n}', category=f'Cat{n}', subcategory=draw(st.sampled_from(['', f'Sub{n}'])), tags=[]))
    elif twist == 1:  # same match text, different priority
        src = draw(st.sampled_from(rules))
        rules.append(dict(src, name=f'R{n}', category=f'Cat{n}', priority=draw(st.sampled_from([0, 10, 51, 90, 100])), tags=[]))
    elif twist == 2:  # same pattern count/constraints, lengths differ only through a keyword-bearing text
        rules.append({'name': f'R{n}', 'match': ['match', 'contains', None, draw(st.sampled_from(['HOLIDAY INN', 'PAYDAY LOAN', 'AMOUNT DUE', 'SOURCE', 'FIELD TRIP']))],
                      'category': f'Cat{n}', 'subcategory': '', 'merchant': None, 'priority': None, 'tags': [], 'lets': [], 'fields': []})
        rules.append({'name': f'R{n + 1}', 'match': ['and', [['match', 'contains', None, draw(st.sampled_from(['UBER', 'EATS', 'INN']))],
                                                             draw(st.sampled_from(TRUE_CONSTRAINTS['amount'] + TRUE_CONSTRAINTS['source']))]],
                      'category': f'Cat{n + 1}', 'subcategory': '', 'merchant': None, 'priority': None, 'tags': [], 'lets': [], 'fields': []})
    if len(rules) >= 2 and draw(st.integers(0, 3)) == 0:
        # rule names are display names, not identities: two rules may share one (Costco fuel / Costco groceries)
        i_, j_ = draw(st.permutations(list(range(len(rules)))))[:2]
        rules[j_] = dict(rules[j_], name=rules[i_]['name'])
    vars_ = []
    if draw(st.integers(0, 3)) == 0:
        # a rule's let: shadows a top-level variable FOR THAT RULE ONLY: the rule reading the variable sees the top-level value wherever it stands in the file
        vars_ = [['big', ['cmp', ['name', 'amount'], [['>', ['num', 1000]]]]]]
        k = draw(st.integers(0, len(rules) - 1))
        rules[k] = dict(rules[k], lets=[['big', ['cmp', ['name', 'amount'], [['>', ['num', 100]]]]]])
        rules.append({'name': f'R{len(rules) + 3}', 'match': ['var', draw(st.sampled_from(['big', 'Big']))], 'category': 'CatBig', 'subcategory': 'SubBig', 'merchant': None,
                      'priority': draw(st.sampled_from([None, 100])), 'tags': ['tbig'], 'lets': [], 'fields': []})
    rules = [rules[i] for i in draw(st.permutations(list(range(len(rules)))))]
    perms = draw(st.lists(st.permutations(list(range(len(rules)))), min_size=20, max_size=20)) if len(rules) > 5 else None
    return {'rules': rules, 'perms': perms, 'vars': vars_}


# ------------------------------------------------------------------------------------------------
# reference ranks
# ------------------------------------------------------------------------------------------------
def ingredients(match, raw=False):
    """`raw`: pattern text measured as written in the file (escapes included) rather than as the text it denotes - the statement does not say which"""
    L = (lambda x: len(lang.lit(x)) - 2) if raw else len
    pat_calls, names, lit_all, lit_pat = 0, set(), 0, 0
    for n in lang.walk(match):
        k = n[0]
        if k == 'match':
            pat_calls += 1
            lit_all += L(n[3])
            lit_pat += L(n[3])
        elif k == 'anyof':
            pat_calls += 1
            lit_all += sum(L(x) for x in n[1])
            lit_pat += sum(L(x) for x in n[1])
        elif k == 'str':
            lit_all += L(n[1])
        elif k in ('name', 'txn'):
            if n[1].lower() in GROUP:
                names.add(n[1].lower())
        elif k == 'field':
            names.add('field')
    return pat_calls, names, lit_all, lit_pat


def ranks(rule):
    """rank tuple under each admissible reading."""
    pc, names, la, lp = ingredients(rule['match'])
    _, _, ra, rp = ingredients(rule['match'], raw=True)
    prio = 50 if rule['priority'] is None else rule['priority']
    kindsA = len(names)
    kindsB = len(names | ({'day'} if 'weekday' in names else set()))
    kindsC = len({GROUP[x] for x in names})
    return [(prio, pc, kk, ll) for kk in (kindsA, kindsB, kindsC) for ll in (la, lp, ra, rp)]


def top_set(cands, file_order):
    """For each reading, the set of indices with maximal rank; returns (agreed_set | None)."""
    if not cands:
        return set()
    tops = []
    for r in range(12):
        best = max(ranks(cands[i])[r] for i in cands)
        tops.append(frozenset(i for i in cands if ranks(cands[i])[r] == best))
    return set(tops[0]) if len(set(tops)) == 1 else None


def check(case, stats: Stats):
    rules = case['rules']
    rows = {}
    txn = lang.mk_txn(TXN)
    rf0 = {'vars': case.get('vars') or [], 'transforms': [], 'rules': rules}
    truths = []
    for r in rules:
        tr, _ = R.ref_truth(rf0, r, txn, rows)
        truths.append(tr)
    matching = {i: rules[i] for i in range(len(rules)) if truths[i]}
    cat_c = {i: r for i, r in matching.items() if r['category']}
    sub_c = {i: r for i, r in matching.items() if r['subcategory'] and r['category']}
    cat_top = top_set(cat_c, None)
    sub_top = top_set(sub_c, None)
    exp_tags = set()
    for i, r in matching.items():
        exp_tags |= {t for t in r['tags']}
    classes = set()
    n = len(rules)
    perms = itertools.permutations(range(n)) if case['perms'] is None else [tuple(p) for p in case['perms']] + [tuple(range(n))]
    if case['perms'] is None:
        classes.add('all_permutations')
    obs.clear_caches()
    nperm = 0
    for perm in perms:
        nperm += 1
        prules = [rules[i] for i in perm]
        text = R.render_file({'vars': case.get('vars') or [], 'transforms': [], 'rules': prules})
        try:
            eng = obs.load_engine(text, 'most_specific')
            if nperm % 2 == 0:
                # the engine has seen another transaction before (no custom fields, no date): what it could not evaluate for THAT one is no fact about this one
                obs.engine_classify(eng, lang.mk_txn(dict(TXN, field=None, date=None, source='Other', location=None, amount=-3.0)), rows)
                classes.add('engine_saw_a_bare_transaction_first')
            a = obs.engine_classify(eng, txn, rows)
        except obs.Crash as c:
            raise Violation(f'{c}\n{text}', case, 'crash')
        except Exception as e:
            raise Violation(f'load failed: {e}\n{text}', case, 'load-fails')
        pos = {orig: p for p, orig in enumerate(perm)}
        if cat_top is not None:
            if not cat_c:
                if a['matched']:
                    raise Violation(f"no categorizing rule matches but category {a['category']!r} assigned\n{text}", case, 'ref')
            else:
                w = min(cat_top, key=lambda i: pos[i])
                if a['category'] != rules[w]['category']:
                    raise Violation(f"most specific matching categorizing rule is {rules[w]['name']} (ranks {ranks(rules[w])[0]} among "
                                    f"{ {rules[i]['name']: ranks(rules[i])[0] for i in cat_c} }), tally chose category {a['category']!r}\n{text}", case, 'category-rank')
        if sub_top is not None and cat_c:
            if sub_c:
                w = min(sub_top, key=lambda i: pos[i])
                if a['subcategory'] != rules[w]['subcategory']:
                    raise Violation(f"subcategory should come from {rules[w]['name']} ({rules[w]['subcategory']!r}), tally says {a['subcategory']!r}\n{text}", case, 'subcategory-rank')
            elif a['subcategory'] not in ('',):
                raise Violation(f"no matching categorizing rule sets a subcategory but tally says {a['subcategory']!r}\n{text}", case, 'subcategory-rank')
        if a['tags'] != exp_tags:
            raise Violation(f"tags {sorted(a['tags'])} != union over matching rules {sorted(exp_tags)}\n{text}", case, 'tags')
        if sorted(a['matching_idx']) != sorted(pos[i] for i in matching):
            raise Violation(f"matching rules {a['matching']} != expected {[rules[i]['name'] for i in matching]}\n{text}", case, 'truth')
    stats.evaluations += nperm - 1
    # one pipeline observation (rule_mode passed through get_all_rules)
    text = R.render_file(rf0)
    path = obs.write_rules(text)
    # the same file is first loaded the way a caller that does not state a mode loads it (get_transforms' default), then in most_specific mode:
    # the mode that decides is the one the rules were loaded with last
    from tally.merchant_utils import get_all_rules, get_transforms
    if len(jhash(case)) and int(jhash(case)[:2], 16) % 2 == 0:
        try:
            get_transforms(path)
            get_all_rules(path)
        except Exception as e:
            raise Violation(f'loading the generated file raised {type(e).__name__}: {e}\n{text}', case, 'load-fails')
        classes.add('mode_switch_on_same_file')
    b = obs.pipeline_classify(path, txn, rows, mode='most_specific')
    eng = obs.load_engine(text, 'most_specific')
    a = obs.engine_classify(eng, txn, rows)
    if a['matched'] and (b['category'], b['subcategory']) != (a['category'], a['subcategory']):
        raise Violation(f"normalize_merchant in most_specific mode says {(b['category'], b['subcategory'])}, engine says {(a['category'], a['subcategory'])}\n{text}", case, 'pipeline-mode')
    # classification of the case
    if cat_top is None or sub_top is None:
        classes.add('ambiguous_reading')
    if len(cat_c) >= 2 and cat_top is not None:
        rk = sorted((ranks(r)[0] for r in cat_c.values()), reverse=True)
        if rk[0] == rk[1]:
            classes.add('exact_tie')
        else:
            for comp, name in enumerate(['priority_decides', 'pattern_count_decides', 'constraints_decide', 'length_decides']):
                if rk[0][comp] != rk[1][comp]:
                    classes.add(name)
                    break
    if any(any(kw in x.lower() for kw in ('amount', 'date', 'month', 'year', 'day', 'source', 'field')) for r in cat_c.values()
           for nn in lang.walk(r['match']) if nn[0] in ('match', 'anyof') for x in ([nn[3]] if nn[0] == 'match' else nn[1])):
        classes.add('keyword_in_text')
    for r in cat_c.values():
        names_seen = [n[1].lower() for n in lang.walk(r['match']) if n[0] in ('name', 'txn') and n[1].lower() in GROUP] + ['field' for n in lang.walk(r['match']) if n[0] == 'field']
        if len(names_seen) != len(set(names_seen)):
            classes.add('kind_used_twice')
    ms = [lang.render(r['match']) for r in cat_c.values()]
    if len(set(ms)) < len(ms) and len({r['priority'] for r in cat_c.values()}) > 1:
        classes.add('same_match_diff_priority')
    if cat_top and sub_top and cat_c and sub_c and min(cat_top) not in sub_top:
        classes.add('subcategory_from_other_rule')
    nontrivial = len(cat_c) >= 2 and cat_top is not None and len({ranks(r)[0] for r in cat_c.values()}) >= 2
    stats.case(jhash(case['rules']), nontrivial, classes, sample={'rules': R.render_file(rf0)[:700], 'permutations': nperm})


def replay(case):
    try:
        check(case, Stats())
    finally:
        obs.cleanup()


def shards(tier):
    n = 150 if tier == 'quick' else 2500
    return [('random', n)] * 16


def run_shard(kind, n, seed, tier):
    s = Stats()
    try:
        campaign(rule_set(), check, n, seed, s, tier)
    finally:
        obs.cleanup()
    return s
