"""C03 - Rule expressions are confined: no code execution, I/O or introspection."""
from __future__ import annotations

import ast
import copy
import datetime as _dt
import itertools
import re
import sys
import types

from hypothesis import strategies as st

from tv import lang, obs
from tv.harness import CaseTimeout, Stats, Violation, campaign, jhash, time_guard

ID = 'C03'
LEVEL = 'exploration'
RULE = ('Expression strings from four families: (i) EXHAUSTIVE matrix {every attribute name of str/dict/list/float/int/date/function/'
        'type/generator/object} x {every receiver kind the language can build} x {read, call with 0/1/2 args, subscript, chained}; '
        '(ii) every ast expression/operator node type of the running Python, alone and spliced into each operand position of allowed '
        'constructs; (iii) a corpus of classic sandbox-escape payloads; (iv) Hypothesis-generated wild expressions and random splices '
        'of (ii)/(iii). Each string is exercised through parse_expression, evaluate_transaction, the views evaluator, and as match/let/'
        'field/tag/variable/transform of a .rules file and filter/variable of a views file. Oracle: sys.addaudithook monitor (only the '
        'parser\'s own compile event is allowed), every produced value/tag/field/variable recursively inside the data universe and '
        'free of interpreter-internal reprs, only ExpressionError/parse errors raised, transaction/rows/variables/AST unchanged. '
        'Non-trivial = parses as Python and contains Attribute/Call-on-Attribute/Subscript/comprehension/NamedExpr or a node outside '
        'the whitelist; distinct by ast.dump.')
ASSUMPTIONS = ['audit events are the observable for I/O, import, exec/compile, process, socket and ctypes use (CPython raises them for all of these)',
               'bytes/complex/Ellipsis literals evaluate to plain data and are not interpreter internals']
REQUIRED_CLASSES = ['matrix', 'function_matrix', 'node_coverage', 'payload', 'ctx_rules_file', 'ctx_views', 'outcome_value', 'outcome_rejected', 'outcome_error']
ALL_EXHAUSTIVE = False

INTERNAL_RE = re.compile(r'<(class|function|built-in|bound method|module|method-wrapper|method|generator object|slot wrapper|code object|frame object|cell)\b|'
                         r'object at 0x|<built-in method|<lambda>|<genexpr>')
DATA_TYPES = (type(None), bool, int, float, complex, str, bytes, type(Ellipsis), _dt.date, _dt.datetime, _dt.timedelta)

# ------------------------------------------------------------------------------------------------
# audit monitor
# ------------------------------------------------------------------------------------------------
_events = []
_armed = [False]
_hook_installed = [False]
INTERESTING = ('open', 'import', 'exec', 'compile', 'os.', 'subprocess.', 'socket.', 'ctypes.', 'object.__getattr__', 'object.__setattr__',
               'object.__delattr__', 'code.__new__', 'function.__new__', 'sys._getframe', 'sys._current_frames', 'builtins.input', 'shutil.',
               'pickle.', 'marshal.', 'urllib.', 'tempfile.', 'glob.', 'pathlib.', 'fcntl.', 'resource.', 'signal.', 'webbrowser.', 'sys.settrace',
               'sys.setprofile', 'cpython.run', 'gc.get_', 'mmap.', 'winreg.', 'sqlite3.', 'builtins.breakpoint', 'builtins.id')


_inhook = [False]


def _hook(name, args):
    if not _armed[0] or _inhook[0]:
        return
    try:
        if not name.startswith(INTERESTING):
            return
    except RecursionError:
        return
    _inhook[0] = True
    try:
        # attribute the event: it counts when it is raised on behalf of tally's code. Walking outwards from the event, a frame of the interpreter's
        # own error-reporting machinery (traceback / linecache: "Exception ignored in ..." printing reads and parses source lines) or of the harness
        # reached BEFORE any tally frame means the event is not tally's doing.
        try:
            f = sys._getframe(1)
        except (ValueError, RecursionError):
            return
        depth = 0
        mine = False
        while f is not None and depth < 60:
            fn = f.f_code.co_filename
            if name == 'compile' and depth < 8 and f.f_code.co_name == 'parse' and fn.endswith('ast.py') and f.f_back is not None and \
                    f.f_back.f_code.co_filename.replace('\\', '/').endswith('tally/expr_parser.py'):
                return  # the one expected event: ast.parse() inside parse_expression (it is how the parser works)
            if fn.endswith(('/traceback.py', '/linecache.py', '/warnings.py', '/tokenize.py')) or '/hypothesis/' in fn or fn.endswith(('/tv/harness.py',)):
                return
            if '/tally/' in fn.replace('\\', '/'):
                mine = True
                break
            if fn.endswith('/tv/props/C03.py'):
                break
            f = f.f_back
            depth += 1
        if mine or depth >= 60:
            _events.append((name, repr(args)[:120]))
    except RecursionError:
        return
    finally:
        _inhook[0] = False


_unraisable = [0]


def _on_unraisable(u):
    """An exception raised where Python cannot propagate it (the time guard or a RecursionError landing inside the audit hook) is printed by the
    interpreter WITH a traceback - and printing a traceback opens and parses source files, i.e. raises `open`/`compile` audit events while the
    monitor is armed, on top of whatever tally frame happened to be running. Count it instead of printing it."""
    _unraisable[0] += 1


def arm():
    if not _hook_installed[0]:
        sys.unraisablehook = _on_unraisable
        # pre-warm tally's own lazy imports so they do not show up as events
        import difflib  # noqa
        from tally import expr_parser, merchant_engine, merchant_utils, section_engine, modifier_parser  # noqa
        import statistics, warnings  # noqa
        sys.addaudithook(_hook)
        _hook_installed[0] = True
    del _events[:]
    _armed[0] = True


def disarm():
    _armed[0] = False
    ev = list(_events)
    del _events[:]
    return ev


# ------------------------------------------------------------------------------------------------
# oracle pieces
# ------------------------------------------------------------------------------------------------
def bad_value(v, depth=0):
    """None if v is plain data, else a description of the offending part."""
    if depth > 6:
        return None
    if isinstance(v, DATA_TYPES):
        if isinstance(v, str) and INTERNAL_RE.search(v):
            return f'string exposing interpreter internals: {v[:100]!r}'
        return None
    if isinstance(v, (list, tuple, set, frozenset)):
        for x in v:
            b = bad_value(x, depth + 1)
            if b:
                return b
        return None
    if isinstance(v, dict):
        for k, x in v.items():
            b = bad_value(k, depth + 1) or bad_value(x, depth + 1)
            if b:
                return b
        return None
    return f'value of type {type(v).__module__}.{type(v).__qualname__}: {repr(v)[:100]}'


TXN = {'description': 'UBER EATS REF:12345', 'amount': 42.5, 'date': '2024-06-15', 'field': {'memo': 'PROJ:alpha', 'type': 'WIRE'}, 'source': 'Amex',
       'location': 'Seattle, WA'}
ROWS = {'orders': [{'item': 'Book', 'amount': 42.5, 'date': '2024-06-14', 'qty': 1}, {'item': 'Pen', 'amount': 3.0, 'date': '2024-06-01', 'qty': 2},
                   {'item': 'Short row', 'amount': 1.0}]}  # the last row comes from a short CSV line: it lacks columns the first row has
VARS = {'m': [{'item': 'Book', 'amount': 42.5}], 'label': 'UBER', 'is_large': True}


def fresh():
    return lang.mk_txn(TXN), lang.mk_rows(ROWS), copy.deepcopy(VARS)


def run_expr(src, stats_classes=None):
    """Exercise one expression string through the expression-level contexts.  Raises Violation."""
    from tally import expr_parser as ep
    case = {'kind': 'expr', 'src': src}
    txn, rows, variables = fresh()
    snap = (copy.deepcopy(txn), copy.deepcopy(rows), copy.deepcopy(variables))
    ep._expression_cache.pop(src, None)
    arm()
    outcome = None
    tree_dump = None
    try:
        try:
            tree = ep.parse_expression(src)
            try:
                tree_dump = ast.dump(tree)
            except RecursionError:  # the harness' own dump of a very deep tree: skip the AST-unchanged check for this string
                tree_dump = None
        except ep.ExpressionError:
            outcome = 'rejected'
            tree = None
        except (RecursionError, MemoryError) as e:
            raise Violation(f'parse_expression({src[:200]!r}) raised {type(e).__name__} (not an expression error)', case, 'parse-escape:' + type(e).__name__)
        except Exception as e:
            raise Violation(f'parse_expression({src[:200]!r}) raised {type(e).__name__}: {e}', case, 'parse-escape:' + type(e).__name__)
        if tree is not None:
            try:
                val = ep.evaluate_transaction(src, txn, variables, rows)
                outcome = 'value'
                b = bad_value(val)
                if b:
                    raise Violation(f'evaluate_transaction({src!r}) produced a {b}', case, 'leak')
            except ep.ExpressionError:
                outcome = 'error'
            except Violation:
                raise
            except Exception as e:
                raise Violation(f'evaluate_transaction({src[:200]!r}) raised {type(e).__name__}: {str(e)[:200]} (not an expression error)', case,
                                'eval-escape:' + type(e).__name__)
            if tree_dump is not None and ast.dump(tree) != tree_dump:
                raise Violation(f'evaluating {src!r} changed the parsed expression', case, 'ast-mutated')
            # views evaluator
            try:
                ctx = ep.create_context(transactions=[{'amount': 5.0, 'date': _dt.datetime(2024, 1, 15), 'category': 'Food', 'subcategory': 'S', 'merchant': 'M',
                                                       'tags': ['a']}, {'amount': 7.5, 'date': _dt.datetime(2024, 2, 15), 'category': 'Food', 'subcategory': 'S',
                                                                        'merchant': 'M', 'tags': ['a']}], num_months=12,
                                        variables={'label': 'x', 'description': 'UBER', 'orders': [1, 2], 'amount': 5.0})
                v2 = ep.evaluate(src, ctx)
                b = bad_value(v2)
                if b:
                    raise Violation(f'views evaluator: {src!r} produced a {b}', case, 'leak-views')
            except ep.ExpressionError:
                pass
            except Violation:
                raise
            except Exception as e:
                raise Violation(f'views evaluator: {src[:200]!r} raised {type(e).__name__}: {str(e)[:200]}', case, 'eval-escape-views:' + type(e).__name__)
    finally:
        ev = disarm()
    if ev:
        raise Violation(f'evaluating {src!r} raised audit events {ev[:4]}', case, 'audit:' + ev[0][0])
    if (txn, rows, variables) != snap:
        raise Violation(f'evaluating {src!r} changed the transaction / rows / variables', case, 'mutation')
    return outcome


def run_in_files(src):
    """The same string as match/let/field/tag/variable/transform of a .rules file and filter/variable of a views file."""
    from tally import section_engine as se
    from tally.merchant_engine import MerchantParseError, parse_merchants
    from tally.merchant_utils import apply_transforms
    if '\n' in src or '\r' in src:
        return
    case = {'kind': 'file', 'src': src}
    files = {
        'match': f'[R]\nmatch: {src}\ncategory: C\ntags: t\n',
        'let+field': f'[R]\nlet: x = {src}\nmatch: True\ncategory: C\nfield: f = {src}\nfield: g = x\ntags: {{x}}\n',
        'tag': f'[R]\nmatch: True\ncategory: C\ntags: a, {{{src}}}\n',
        # braces INSIDE a tag that is not wholly an {expression}: plain tag text (never a template filled by attribute / index traversal)
        'tag_text_with_braces': f'[R]\nlet: v = description\nmatch: True\ncategory: C\ntags: x-{{{src}}}-y, {{source}}-card, v{{v.__class__}}, m{{amount.__class__.__mro__}}, o{{orders.__class__.__base__.__subclasses__}}\n',
        'variable': f'v = {src}\n[R]\nmatch: v or True\ncategory: C\ntags: {{v}}\nfield: f = v\n',
        'variable_in_let_rule': f'v = {src}\n[R]\nlet: w = 1\nmatch: True\ncategory: C\ntags: {{v}}, {{w}}\nfield: f = v\n',
        'transform': f'field.description = {src}\nfield.memo = {src}\n[R]\nmatch: True\ncategory: C\ntags: {{field.memo}}, {{description}}\n',
    }
    for ctxname, text in files.items():
        txn, rows, _ = fresh()
        rows_snap = copy.deepcopy(rows)
        arm()
        try:
            try:
                eng = parse_merchants(text)
            except MerchantParseError:
                continue
            except Exception as e:
                raise Violation(f'.rules loader ({ctxname}) raised {type(e).__name__}: {str(e)[:200]} for {src[:200]!r}', case, 'file-escape:' + type(e).__name__)
            try:
                apply_transforms(txn, eng.transforms)
                txn_snap = copy.deepcopy(txn)  # transforms are the user's own assignments; matching (lets, fields, tags) must leave the transaction as it is
                r = eng.match(txn, data_sources=rows)
            except Exception as e:
                raise Violation(f'match with {src[:200]!r} as {ctxname} raised {type(e).__name__}: {str(e)[:200]}', case, 'file-escape:' + type(e).__name__)
        finally:
            ev = disarm()
        if ev:
            raise Violation(f'{src!r} as {ctxname}: audit events {ev[:4]}', case, 'audit:' + ev[0][0])
        for what, v in (('tags', sorted(r.tags)), ('extra fields', r.extra_fields), ('transformed transaction', {k: v for k, v in txn.items()})):
            b = bad_value(v)
            if b:
                raise Violation(f'{src!r} as {ctxname}: {what} contain a {b}', case, 'leak-file')
        if rows != rows_snap:
            raise Violation(f'{src!r} as {ctxname} changed the supplemental rows', case, 'mutation')
        if repr(txn) != repr(txn_snap):
            raise Violation(f'{src!r} as {ctxname}: matching changed the transaction\n  before {txn_snap!r}\n  after  {txn!r}', case, 'mutation')
    vtext = f'gv = {src}\n[V]\nlv = {src}\nfilter: {src}\n[W]\nfilter: gv or lv or True\n'
    arm()
    try:
        try:
            cfg = se.parse_sections(vtext)
        except se.SectionParseError:
            cfg = None
        except Exception as e:
            raise Violation(f'views loader raised {type(e).__name__}: {str(e)[:200]} for {src[:200]!r}', case, 'file-escape:' + type(e).__name__)
        if cfg is not None:
            groups = [{'merchant': 'M', 'category': 'Food', 'subcategory': 'S',
                       'transactions': [{'amount': 5.0, 'date': _dt.datetime(2024, 1, 15), 'category': 'Food', 'subcategory': 'S', 'merchant': 'M', 'tags': ['a']}]}]
            try:
                se.classify_merchants(cfg, groups, 12, period_data={'month': 12, 'year': 1})
            except Exception as e:
                raise Violation(f'classify_merchants with {src[:200]!r} raised {type(e).__name__}: {str(e)[:200]}', case, 'file-escape:' + type(e).__name__)
    finally:
        ev = disarm()
    if ev:
        raise Violation(f'{src!r} in a views file: audit events {ev[:4]}', case, 'audit:' + ev[0][0])


def nontrivial(src):
    import warnings
    try:
        with warnings.catch_warnings():
            warnings.simplefilter('ignore')
            t = ast.parse(src, mode='eval')
    except (SyntaxError, ValueError, RecursionError, MemoryError):
        return None
    from tally.expr_parser import ALLOWED_NODES
    for n in ast.walk(t):
        if isinstance(n, (ast.Attribute, ast.Subscript, ast.ListComp, ast.GeneratorExp, ast.NamedExpr)) or type(n) not in ALLOWED_NODES:
            return ast.dump(t)[:2000]
    return None


def exercise(src, stats: Stats, family, files=True, sample=False):
    try:
        with time_guard(8):
            out = run_expr(src)
            cl = {family, 'outcome_' + out}
            if files:
                run_in_files(src)
                cl |= {'ctx_rules_file', 'ctx_views'}
    except CaseTimeout:
        disarm()
        stats.classes['timeout_inconclusive'] += 1
        stats.notes.append('timeout (inconclusive): ' + src[:120])
        return
    nt = nontrivial(src)
    stats.case(jhash(nt) if nt else 'x' * 16, nt is not None, cl, sample={'src': src, 'outcome': out} if sample else None)


# ------------------------------------------------------------------------------------------------
# (i) matrix
# ------------------------------------------------------------------------------------------------
def attr_names():
    names = set()
    for o in (str, dict, list, float, int, _dt.date, types.FunctionType, type, types.GeneratorType, object, bytes, tuple, set, types.MethodType,
              types.BuiltinFunctionType, types.CodeType, types.FrameType, types.ModuleType):
        names |= set(dir(o))
    names |= {'__globals__', '__builtins__', '__import__', 'gi_frame', 'gi_code', 'f_globals', 'f_back', 'f_builtins', '__subclasses__', '__mro__', '__base__',
              '__bases__', 'func_globals', '__self__', '__func__', '__wrapped__', '__closure__', '__code__', '__dict__', 'ctx', '_scope', 'evaluate', 'variables',
              'data_sources', 'item', 'amount', 'memo', 'nosuch', 'format', 'format_map', 'translate', 'encode', 'join', 'mro'}
    return sorted(names)


RECEIVERS = ['orders[2]', 'orders[-1]', 'description', 'amount', 'date', 'source', 'month', 'field.memo', 'txn.amount', 'txn.date', 'txn.description', 'txn', 'field', '"lit"', '5', '2.5', 'True',
             'None', 'orders', 'orders[0]', 'orders[0].item', 'orders[0].date', '[r for r in orders]', '(r for r in orders)', 'trim()', 'contains', 'len', 'abs',
             '(x := description)', '(amount > 1)', 'm', 'm[0]', 'label', '(date)', 'field.date', 'next(r.date for r in orders)', '[r.date for r in orders][0]']


def matrix_strings(part, nparts):
    names = attr_names()
    k = 0
    for name in names:
        for recv in RECEIVERS:
            k += 1
            if k % nparts != part:
                continue
            yield f'{recv}.{name}'
            yield f'{recv}.{name}()'
            yield f'{recv}.{name}("x")'
            yield f'{recv}.{name}(0, 1)'
            yield f'{recv}["{name}"]'
            yield f'{recv}.{name}.__self__'
            yield f'trim({recv}.{name})'
            yield f'[x.{name} for x in [{recv}]]' if False else f'[x.{name} for x in orders]'


def function_names():
    import builtins, collections, functools, itertools, json as _json, math, operator, os as _os, statistics, string, sys as _sys
    names = set()
    for mod in (builtins, statistics, math, itertools, functools, operator, re, _os, _sys, collections, _dt, _json, ast, string, types, copy):
        names |= {n for n in dir(mod) if not n.startswith('__') or n in ('__import__', '__build_class__')}
    names |= {n.lower() for n in names}
    # every name the evaluator under test can dispatch on: its own function tables and every identifier-shaped string constant of the module
    try:
        import inspect
        from tally import expr_parser as _ep
        for cls in (_ep.TransactionContext, _ep.ExpressionContext):
            names |= {n[4:] for n in dir(cls) if n.startswith('_fn_')}
            names |= set(getattr(cls, '_FUNCTION_NAMES', ()))
        # every attribute / method / instance-variable name of every class the evaluator is built from (a name lookup that falls through to
        # getattr on one of its own objects would expose them)
        for obj in vars(_ep).values():
            if isinstance(obj, type) and obj.__module__ == _ep.__name__:
                names |= set(dir(obj))
        try:
            ctx = _ep.TransactionContext.from_transaction({'description': 'x', 'amount': 1.0})
            names |= set(vars(ctx)) | set(vars(_ep.TransactionEvaluator(ctx)))
        except Exception:
            pass
        for node in ast.walk(ast.parse(inspect.getsource(_ep))):
            if isinstance(node, ast.Constant) and isinstance(node.value, str) and node.value.isidentifier():
                names.add(node.value)
    except (ImportError, OSError, SyntaxError, AttributeError):
        pass
    return sorted(n for n in names if n.isidentifier())


FUNC_SHAPES = ['{f}', '{f}()', '{f}(payments)', '{f}("a b", "c d")', '{f}(1, 2)', '{f}(description)', '{f}(orders)', '{f}(amount)', '{f}("os")', 'trim({f})', '{f}(payments, 1)',
               # strings that are programs of some mini-language (str.format fields, %-templates, regex replacement templates, strftime), in every argument position
               '{f}("{0.__class__} {0.upper}", description)', '{f}("{0[0].__class__.__mro__}", [r for r in orders])', '{f}(description, "{0.__class__.__init__.__globals__}")',
               '{f}("%(item)r %(date)r", orders[0])', '{f}("{.__class__}")', '{f}(description, "(.)", "\\g<0>{0.__class__}")', '{f}("{0.__class__}", "{0.__class__}", description)',
               '{f}("{txn.__class__} {field.__class__}", txn)', '{f}(date, "{0.__class__}%c")']


def function_matrix_strings(part, nparts):
    k = 0
    for f in function_names():
        k += 1
        if k % nparts != part:
            continue
        for shape in FUNC_SHAPES:
            yield shape.replace('{f}', f)


# ------------------------------------------------------------------------------------------------
# (ii) node coverage
# ------------------------------------------------------------------------------------------------
NODE_SNIPPETS = {
    'BoolOp': 'a and b', 'NamedExpr': '(v := 1)', 'BinOp': '1 + 2', 'UnaryOp': '-1', 'Lambda': 'lambda: 1', 'IfExp': '1 if True else 2', 'Dict': '{"a": 1}',
    'Set': '{1, 2}', 'ListComp': '[r for r in orders]', 'SetComp': '{r for r in orders}', 'DictComp': '{r: 1 for r in orders}', 'GeneratorExp': '(r for r in orders)',
    'Await': 'await x', 'Yield': '(yield)', 'YieldFrom': '(yield from x)', 'Compare': '1 < 2', 'Call': 'trim()', 'FormattedValue': 'f"{description!r:>10}"',
    'JoinedStr': 'f"{description.__class__}"', 'Constant': '"s"', 'Attribute': 'txn.amount', 'Subscript': 'orders[0]', 'Starred': '[*orders]', 'Name': 'amount',
    'List': '[1, 2]', 'Tuple': '(1, 2)', 'Slice': 'description[1:2]', 'Pow': '2 ** 3', 'FloorDiv': '7 // 2', 'BitOr': '1 | 2', 'BitAnd': '1 & 2', 'BitXor': '1 ^ 2',
    'LShift': '1 << 2', 'RShift': '8 >> 1', 'MatMult': 'amount @ amount', 'Invert': '~1', 'UAdd': '+1', 'Is': 'amount is None', 'IsNot': 'amount is not None',
    'keyword': 'contains(pattern="x")', 'starargs': 'contains(*orders)', 'kwargs': 'contains(**orders[0])', 'Ellipsis': '...', 'bytes': 'b"x"', 'complex': '1j',
    'TemplateStr': 't"{description}"', 'conditional_lambda_call': '(lambda: 1)()', 'nested_fstring': 'f"{f\'{description}\'}"', 'walrus_in_comp': '[y := r for r in orders]',
    'tuple_target': '[a for a, b in orders]', 'attr_target': '[1 for txn.x in orders]', 'slice_step': 'description[::-1]', 'ext_slice': 'orders[0, 1]',
    'call_on_call': 'trim()()', 'call_on_sub': 'orders[0]()', 'call_on_const': '"x"()', 'deep_attr': 'txn.amount.real.imag', 'str_mul': '"a" * 20000',
    'big_repeat': '[r for r in orders] * 3', 'chained_methods': 'description.lower().upper().strip().replace("a", "b")', 'format_call': '"{0.__class__}".format(description)',
    'percent_format': '"%s" % description', 'percent_attr': '"%(amount)s" % orders[0]',
    # literals the evaluator converts while comparing (ISO date strings, numbers as text): the parsed expression must stay as written
    'date_compare': 'date >= "2024-01-01"', 'date_compare_rev': '"2024-01-01" <= date', 'date_eq': 'txn.date == "2024-03-05"', 'date_chain': '"2024-01-01" <= date <= "2024-12-31"',
    'short_row_attr': 'orders[2].qty', 'short_row_attr2': 'orders[-1].date', 'short_row_comp': '[r.qty for r in orders]', 'short_row_any': 'any(r.qty == 2 for r in orders)',
    'short_row_exists': 'exists(orders[2].qty)', 'short_row_len': 'len([r for r in orders if r.date])',
    # folds whose START value is the data source's / a variable's own list (an in-place fold would grow it)
    'sum_start_source': 'sum(([r for r in m] for x in m), orders)', 'sum_start_var': 'sum(([r for r in m] for o in orders), m)', 'sum_start_len': 'len(sum(([r for r in orders] for x in m), orders))',
    'sum_start_row_list': 'sum(([r for r in m] for o in orders), [r for r in orders])', 'concat_sources': 'orders + orders', 'concat_var_source': 'm + orders', 'mul_source': 'orders * 2',
    'sum_start_str': 'sum((r.item for r in orders), "")', 'max_default_source': 'max([], orders)', 'next_default_source': 'next((r for r in orders if False), orders)',
    # a loop variable read AFTER its generator / comprehension has finished is unknown again (never a placeholder object)
    'loopvar_after_gen': 'trim(o) if sum(o.amount for o in orders) > 0 else ""', 'loopvar_after_all': 'o if all(o.amount > 0 for o in orders) else ""',
    'loopvar_after_any': 'any(r.qty == 99 for r in orders) or r', 'loopvar_after_comp': 'len([r for r in orders]) and r', 'loopvar_after_next': 'next((r for r in orders), 0) and r.item',
    'loopvar_after_min': 'min(r.amount for r in orders) and lowercase(r)', 'loopvar_shadow_restored': '[amount for amount in orders] and amount',
    'row_date_compare': '[r for r in orders if r.date > "2024-01-01"]', 'date_in': 'date in ["2024-03-05"]', 'date_bad': 'date > "not-a-date"', 'month_compare': 'month == "3"',
}
for _name in dir(ast):
    _cls = getattr(ast, _name)
    if isinstance(_cls, type) and issubclass(_cls, (ast.expr, ast.operator, ast.unaryop, ast.cmpop, ast.boolop)) and _cls not in (ast.expr, ast.operator, ast.unaryop, ast.cmpop, ast.boolop):
        if _name not in NODE_SNIPPETS and _name not in ('Eq', 'NotEq', 'Lt', 'LtE', 'Gt', 'GtE', 'In', 'NotIn', 'And', 'Or', 'Not', 'Add', 'Sub', 'Mult', 'Div', 'Mod', 'USub',
                                                         'Num', 'Str', 'Bytes', 'NameConstant', 'Ellipsis', 'Index', 'ExtSlice', 'Interpolation'):
            NODE_SNIPPETS['MISSING_' + _name] = '0'  # flagged by REQUIRED check below

TEMPLATES = ['{X}', 'contains({X})', '{X} and True', 'True or {X}', '[{X} for r in orders]', '[r for r in {X}]', '[r for r in orders if {X}]', 'amount + {X}', '({X}).lower()',
             '(v := {X})', '{X} if True else 0', '0 if {X} else 1', 'len({X})', 'description[{X}]', 'next({X}, 1)', 'sum({X})', 'trim({X})', 'exists({X})', '({X}).item',
             'not {X}', '-({X})', '{X} == {X}', 'orders[0][{X}]', 'regex_replace(description, {X}, {X})', 'any({X} for r in orders)', 'min({X}, 2)', 'extract({X})',
             'next((r for r in orders if False), {X})', 'next((r for r in []), {X})', 'sum((r.amount for r in orders if False), {X})', 'sum([], {X})', 'min({X}, {X})', 'max(1, {X})',
             'round(1.5, {X})', 'substring({X}, 0, 1)', 'split({X}, "a", 0)', '{X} in {X}', '[{X}][0]', 'fuzzy({X}, {X}, {X})', 'strip_prefix({X}, {X})', 'lowercase({X})',
             '{X} if False else {X}', '(v := {X}) and v', 'next(({X} for r in orders), 1)', '[{X} for r in orders][0]']


def node_strings():
    for name, snip in NODE_SNIPPETS.items():
        for t in TEMPLATES:
            yield t.replace('{X}', snip)


# ------------------------------------------------------------------------------------------------
# (iii) payloads
# ------------------------------------------------------------------------------------------------
PAYLOADS = [
    '().__class__.__bases__[0].__subclasses__()', '"".__class__.__mro__[1].__subclasses__()', '__import__("os").system("true")', '__import__("os")',
    'eval("1+1")', 'exec("x=1")', 'open("/etc/passwd").read()', 'compile("1", "x", "eval")', 'globals()', 'locals()', 'vars()', 'dir()', 'type(description)',
    'getattr(description, "upper")', 'getattr(description, "__class__")', 'setattr(txn, "x", 1)', 'delattr(txn, "amount")', 'hasattr(description, "x")',
    'isinstance(description, str)', 'description.__class__', 'description.__class__.__base__', 'description.__class__.__base__.__subclasses__()',
    'amount.__class__.__mro__', 'orders.__class__', 'orders[0].__class__', 'orders[0].keys()', 'orders[0].items()', 'orders[0].get("item")', 'orders[0].pop("item")',
    'orders[0].clear()', 'orders[0].update(orders[1])', 'orders.append(1)', 'orders.clear()', 'orders.pop()', 'orders.sort()', 'orders[0].__setitem__("item", 1)',
    'm.append(1)', 'm[0].clear()', 'field.__class__', 'txn.__class__', 'txn.__dict__', 'txn.ctx', 'contains.__self__', 'contains.__func__', 'contains.__globals__',
    'trim.__self__.data_sources', 'len.__self__', 'abs.__self__', 'abs.__class__', 'round.__call__', 'next.__doc__', 'description.format', 'description.format()',
    '"{0.__class__}".format(description)', '"{0.__class__.__mro__}".format(amount)', '"{0.real}".format(amount)', 'description.format_map(orders[0])',
    '"%s" % [contains]', 'description.join', 'description.encode()', 'description.translate(orders[0])', 'description.__getattribute__("upper")',
    'description.__reduce__()', 'description.__reduce_ex__(2)', 'description.__init_subclass__', 'description.__dir__()', 'description.__sizeof__()',
    'next((r for r in orders if False), (r for r in orders))', 'sum((x.amount for x in orders if False), (y for y in orders))', 'next((r for r in []), (r.item for r in orders))',
    'trim(next((r for r in []), (r.item for r in orders)))', 'min((r for r in orders), (r for r in orders))', 'date.__class__', 'date.today()', 'date.weekday', 'date.weekday()', 'date.replace(year=1)', 'date.isoformat', 'date.strftime("%Y")', 'date.__reduce__()',
    'txn.date.weekday', 'txn.date.year', 'orders[0].date.weekday', 'orders[0].date.isoformat()', 'date.min', 'date.resolution', 'date.fromisoformat',
    'amount.real', 'amount.is_integer()', 'amount.hex()', 'amount.as_integer_ratio()', 'amount.__add__(1)', 'amount.conjugate', 'month.bit_length()',
    'month.to_bytes(2, "big")', 'month.from_bytes', 'month.numerator', '(r for r in orders).gi_frame', '(r for r in orders).gi_code', '(r for r in orders).send',
    '(r for r in orders).gi_frame.f_globals', '(r for r in orders).gi_frame.f_back', '[r for r in orders].__class__', '[c for c in ().__class__.__base__.__subclasses__()]',
    'lambda: 0', '(lambda: __import__("os"))()', 'print(1)', 'input()', 'breakpoint()', 'help()', 'id(description)', 'hash(description)', 'repr(contains)', 'str(contains)',
    'str(len)', 'trim(contains)', 'trim(len)', 'trim(abs)', 'trim(txn)', 'trim(field)', 'uppercase(contains)', 'lowercase(abs)', 'regex_replace(abs, "a", "b")',
    'strip_prefix(round, "x")', 'strip_suffix(abs, "x")', 'trim(orders)', 'trim(date)', 'exists(contains)', 'exists(abs)', 'abs', 'round', 'contains', 'len', 'sum', 'next',
    'any', 'all', 'min', 'max', 'exists', 'txn', 'field', 'true', 'self', 'ctx', 'cls', 'super()', 'object', 'object()', 'str', 'int', 'float', 'list', 'dict', 'type', 'bool',
    'BaseException', 'Exception', 'memoryview(b"x")', 'bytearray(1)', 'range(10)', 'iter(orders)', 'zip(orders)', 'map(abs, orders)', 'filter(None, orders)',
    'sorted(orders)', 'reversed(orders)', 'enumerate(orders)', 'slice(1)', 'property()', 'classmethod(abs)', 'staticmethod(abs)', 'frozenset()', 'set()', 'tuple()',
    'next(iter(orders))', 'next(orders)', 'sum(orders, [])', 'sum([[1]], [])', 'min(orders)', 'max(orders, orders)', 'len(contains)', 'abs(contains)', 'round(contains)',
    'round(amount, contains)', 'contains(contains)', 'regex(contains)', 'extract(contains)', 'split(contains, 0)', 'substring(contains, 0)', 'fuzzy(contains)',
    'fuzzy("x", contains)', 'anyof(contains)', 'normalized(abs)', 'startswith(len)', 'regex("(a+)+$")', 'regex("(?P<n>x)(?P=n)")', 'extract("(?i)(x)")',
    'regex_replace(description, "(.)", "\\\\g<0>\\\\g<1>")', 'regex_replace(description, ".", "\\\\g<99>")', 'regex_replace(description, "(?#c)x", "y")',
    '[x := r for r in orders]', '(description := 1)', '(txn := 1) or txn.amount', '(field := orders[0]) and field.item', '(contains := 1)', '(orders := 1)',
    '(amount := contains) and amount', '[(amount := r) for r in orders] and amount', '(m := 1) and m', 'txn.amount.real', 'field.memo.upper', 'field.memo.upper()',
    'field.memo.UPPER()', 'field.memo.Format("x")', 'field.memo.__class__', 'field.description.__class__', 'txn.description.__class__.__name__',
    'orders[0].item.__class__', 'orders[0]["item"]', 'orders[0]["__class__"]', 'orders["x"]', 'orders[contains]', 'description[contains]', 'description[-1]',
    'description[0].__class__', 'm[0].item.format', 'label.format', 'is_large.__class__', 'True.__class__', 'None.__class__', '(1).__class__', '"x".__class__',
    '"x".__class__.__name__', '"x".__doc__', '"x".__len__()', '"x".__add__("y")', '"x".__mod__(1)', '"x".__mul__(99999999)', '"ab".__contains__("a")',
    '"a".startswith(("a", "b"))', '"a".startswith(contains)', '"a".replace(contains, "b")', '"a".endswith(abs)', '"{}".replace("{}", "{0.__class__}")',
    'trim().__class__', 'trim().format()', 'lowercase("{0.__class__}").format(1)', 'uppercase(description).lower.__self__', 'contains("x").__class__',
    '(amount > 1).__class__', '(amount > 1).real', 'not contains', 'contains and 1', 'contains or 1', '[contains]', '[contains for r in orders]', '[len for r in orders][0]',
    '[r.item for r in [contains]]', '[r for r in contains]', '[r for r in txn]', '[r for r in field]', '[r for r in amount]', '[r for r in description]',
    '[r.upper for r in description]', '[r.upper() for r in description]', 'next(r for r in [contains])', 'next((r for r in []), contains)', 'next((r for r in []), abs)',
    'contains if True else 1', 'abs if amount else round', '(abs if amount else round)(1)', '(contains if True else regex)("UBER")', 'min(contains, abs)', 'max([abs])',
    'sum([abs])', 'any([abs])', 'all([contains])', 'len([abs])', 'exists(field)', 'exists(txn)', 'description == contains', 'contains == contains', 'abs in [abs]',
    '"a" in contains', 'contains < 1', '-contains', 'contains + 1', 'contains * 2', 'abs / 1', 'abs % 0', 'abs / 0', 'contains / 0',
]

# ------------------------------------------------------------------------------------------------
# (iv) generated
# ------------------------------------------------------------------------------------------------
fragment = st.one_of(st.sampled_from(PAYLOADS), st.sampled_from(list(NODE_SNIPPETS.values())), st.sampled_from(RECEIVERS),
                     lang.wild_expr(2).map(lang.render))
spliced = st.one_of(
    lang.wild_expr(3).map(lang.render),
    st.tuples(st.sampled_from(TEMPLATES), fragment).map(lambda p: p[0].replace('{X}', p[1])),
    st.tuples(st.sampled_from(TEMPLATES), st.sampled_from(TEMPLATES), fragment).map(lambda p: p[0].replace('{X}', p[1].replace('{X}', p[2]))),
    st.tuples(fragment, st.sampled_from(attr_names()), st.sampled_from(['', '()', '("x")', '[0]', '.__self__', '.__class__'])).map(lambda p: f'({p[0]}).{p[1]}{p[2]}'),
    st.tuples(st.sampled_from(RECEIVERS), st.sampled_from(attr_names()), st.sampled_from(attr_names())).map(lambda p: f'{p[0]}.{p[1]}.{p[2]}'),
    st.integers(150, 3000).map(lambda n: 'not ' * n + 'True'),
    st.integers(150, 3000).map(lambda n: '(' * n + '1' + ')' * n),
    st.integers(150, 2000).map(lambda n: '-' * n + '1'),
    st.integers(100, 1500).map(lambda n: 'amount' + '.real' * n),
    st.integers(100, 1500).map(lambda n: '1' + ' + 1' * n),
    st.integers(100, 1000).map(lambda n: 'trim(' * n + 'description' + ')' * n),
    st.integers(2, 9).map(lambda n: '[' * n + '1' + ' for r in orders]' * n),
)


def check_generated(src, stats: Stats):
    exercise(src, stats, 'generated', files=len(src) < 400, sample=stats.evaluations % 97 == 0)


def check_fuzz(src, stats: Stats):
    """coverage-guided campaign: expression-level contexts only (cheap), the same oracle"""
    exercise(src, stats, 'fuzz', files=False)


def replay(case):
    if case['kind'] == 'expr':
        run_expr(case['src'])
    else:
        run_in_files(case['src'])


def shards(tier):
    n = 250 if tier == 'quick' else 10000
    return [(f'matrix:{i}:10', 0) for i in range(10)] + [(f'functions:{i}:2', 0) for i in range(2)] + [('nodes', 0), ('payloads', 0)] + [('generated', n)] * (4 if tier == 'quick' else 16)


def run_shard(kind, n, seed, tier):
    s = Stats()
    try:
        if kind.startswith('matrix'):
            _, part, nparts = kind.split(':')
            i = 0
            for src in matrix_strings(int(part), int(nparts)):
                i += 1
                # file-level contexts for a deterministic 1-in-16 slice of the matrix (they cost ~10x more)
                exercise(src, s, 'matrix', files=(i % (16 if tier == 'quick' else 4) == 0), sample=(i % 5003 == 0))
            s.exhaustive[f'attribute matrix {len(attr_names())} names x {len(RECEIVERS)} receivers x 8 shapes (expression-level contexts)'] = True
        elif kind.startswith('functions'):
            _, part, nparts = kind.split(':')
            for i, src in enumerate(function_matrix_strings(int(part), int(nparts))):
                exercise(src, s, 'function_matrix', files=(i % 40 == 0), sample=(i % 3001 == 0))
            s.exhaustive[f'function-name matrix: {len(function_names())} public names of builtins/statistics/math/itertools/functools/operator/re/os/sys/... x {len(FUNC_SHAPES)} call shapes, both evaluators'] = True
        elif kind == 'nodes':
            missing = [k for k in NODE_SNIPPETS if k.startswith('MISSING_')]
            if missing:
                s.notes.append(f'ast node classes without a snippet: {missing}')
            for i, src in enumerate(node_strings()):
                exercise(src, s, 'node_coverage', files=True, sample=(i % 401 == 0))
            s.exhaustive['every ast expression/operator node type x 27 splice templates'] = True
        elif kind == 'payloads':
            for i, src in enumerate(PAYLOADS):
                exercise(src, s, 'payload', files=True, sample=(i % 67 == 0))
                for t in TEMPLATES[1:8]:
                    exercise(t.replace('{X}', src), s, 'payload', files=False)
            s.exhaustive['payload corpus'] = True
        else:
            campaign(spliced, check_generated, n, seed, s, tier)
    except Violation as v:
        s.violation(v)
    finally:
        obs.cleanup()
    return s
