"""C20 - Commands never alter or overwrite the user's statements, rules or settings."""
from __future__ import annotations

import json
import os

import hypothesis
from hypothesis import settings, strategies as st
from hypothesis.stateful import RuleBasedStateMachine, initialize, precondition, rule, run_state_machine_as_test

from tv import obs
from tv.drv import cli
from tv.harness import HarnessError, Stats, Violation, hyp_settings, jhash

ID = 'C20'
LEVEL = 'exploration'
RULE = ('Hypothesis state machine over a generated budget directory (old ./config or new ./tally/config layout; settings.yaml with or '
        'without merchants_file/views_file; merchants.rules, legacy merchant_categories.csv (with rules / header only), an existing '
        '.bak, views.rules, a notes file, data files and an old report each present or absent) and command sequences of length 1-8 from '
        '{up (each format, -o, --no-embedded-html), up --migrate, explain (summary / merchant / description), discover (each format), '
        'diag (text/json), inspect <data file>, init, workflow, reference}, run in-process with stdout not a tty and cwd = the folder. '
        'Invariant after every step over the bytes of every file: analysis commands change nothing outside the output folder; init keeps '
        'every existing file (settings may only gain a suffix; the legacy CSV may be renamed to .bak unchanged) and creates files only '
        'at new paths; no rules file changes without --migrate, and with it every pre-existing file\'s content survives (same path or '
        'backup). Non-trivial = >=2 commands incl. init or --migrate on a budget with >=1 pre-existing config file.')
ASSUMPTIONS = ['commands run non-interactively (stdin/stdout are not ttys)', 'the output location is the configured output folder (also used for -o in this check)']
REQUIRED_CLASSES = ['init_on_existing', 'up_migrate', 'legacy_csv_present', 'existing_bak', 'existing_bak_gap', 'user_gitignore', 'old_layout', 'new_layout', 'crlf_files']

SETTINGS_BASE = 'year: 2024\ndata_sources:\n  - name: Bank\n    file: data/bank.csv\n    format: "{date:%Y-%m-%d},{description},{amount}"\n'
# settings as an earlier `tally init` wrote them (commented-out hints for optional keys), with the user's data source filled in
SETTINGS_STARTER = ('# Tally Settings\nyear: 2024\ntitle: "Spending Analysis 2024"\n\n# Data sources - add your statement files here\ndata_sources:\n  - name: Bank\n    file: data/bank.csv\n'
                    '    format: "{date:%Y-%m-%d},{description},{amount}"\n  # - name: Checking\n  #   file: data/checking-2024.csv\n\noutput_dir: output\nhtml_filename: spending_summary.html\n\n'
                    '# Merchant rules file - expression-based categorization\nmerchants_file: config/merchants.rules\n\n# Rule matching mode:\n# rule_mode: first_match\n\n'
                    '# Views file (optional) - custom spending views\n# Create config/views.rules and uncomment:\n# views_file: config/views.rules\n\n# Home locations (auto-detected if not specified)\n'
                    '# home_locations:\n#   - WA\n')
RULES_TXT = '# my rules\n[Netflix]\nmatch: contains("NETFLIX")\ncategory: Subscriptions\nsubcategory: Streaming\ntags: recurring\n'
CSV_RULES = 'Pattern,Merchant,Category,Subcategory\n# note\nNETFLIX,Netflix,Subscriptions,Streaming\nUBER\\s*EATS,Uber Eats,Food,Delivery\n'
CSV_EMPTY = 'Pattern,Merchant,Category,Subcategory\n# no rules yet\n'
VIEWS_TXT = '# my views\n[Subs]\nfilter: category == "Subscriptions"\n'
DATA_TXT = 'Date,Description,Amount\n2024-01-05,NETFLIX.COM,15.99\n2024-01-07,UBER EATS SEATTLE,23.50\n2024-02-05,NETFLIX.COM,15.99\n2024-02-09,COFFEE SHOP,4.25\n'

shape_st = st.fixed_dictionaries({
    'layout': st.sampled_from(['old', 'new']),
    'settings': st.sampled_from(['plain', 'plain', 'with_rules', 'with_rules_views', 'no_trailing_newline', 'absent', 'starter', 'starter_merchants_hint', 'stale_rules_entry', 'with_retired_keys']),
    'rules': st.sampled_from(['absent', 'present', 'present', 'present', 'no_rules_yet', 'half_written']),
    'csv': st.sampled_from(['absent', 'rules', 'rules', 'empty']),
    'bak': st.sampled_from([False, False, True, True, 'twin']), 'baks': st.sampled_from([[], [], ['.bak2'], ['.bak3'], ['.bak2', '.bak3'], ['.bak.old'], ['.backup']]), 'views': st.booleans(), 'notes': st.booleans(), 'gitignore': st.sampled_from([None, None, 'node_modules/\n*.pyc\n', '# mine\ndata/\n', 'output/\ndata/\n', '']), 'old_report': st.booleans(), 'data': st.booleans(),
    'crlf': st.sampled_from([False, False, True]),
    # the state an interrupted folder-layout migration leaves: ./config still in place, data/ and output/ already under ./tally
    'half_migrated': st.sampled_from([False, False, False, False, True]),
})

COMMANDS = [
    ['up', '-q', '--format', 'json'], ['up', '--format', 'summary'], ['up', '-q', '--format', 'markdown'], ['up', '-q'], ['up'], ['up', '-q', '--no-embedded-html'],
    ['up', '-q', '-o', '@OUT/custom.html'], ['up', '--migrate', '-q', '--format', 'summary'], ['up', '--migrate'],
    ['explain'], ['explain', '--format', 'json', 'Netflix'], ['explain', '--amount', '12.5', 'SOME NEW MERCHANT XYZ'], ['explain', '--format', 'markdown', '-v', 'Netflix'],
    ['discover'], ['discover', '--format', 'json'], ['discover', '--format', 'csv'], ['diag'], ['diag', '--format', 'json'], ['inspect', '@DATA'],
    ['init'], ['init'], ['workflow'], ['reference'], ['reference', 'views'],
    # the same commands run from SOMEWHERE ELSE with the config directory given explicitly: nothing may appear in that other directory either
    ['up', '-q', '@CONFIG'], ['up', '--format', 'summary', '@CONFIG'], ['up', '-q', '--format', 'json', '@CONFIG'], ['discover', '@CONFIG'], ['diag', '@CONFIG'], ['explain', 'Netflix', '@CONFIG'],
    ['up', '--migrate', '-q', '@CONFIG'],
    # a relative -o is relative to where the command is run: the report appears THERE, nothing new in the budget folder
    ['up', '-q', '-o', 'asked_for.html', '@CONFIG'], ['up', '-q', '--no-embedded-html', '-o', 'asked_for.html', '@CONFIG/'],
    # the config path as shell completion leaves it (trailing separator), absolute from elsewhere and relative from the budget folder
    ['up', '-q', '@CONFIG/'], ['up', '-q', '--no-embedded-html', '@CONFIG/'], ['discover', '@CONFIG/'], ['up', '-q', '@RELCONFIG/'], ['up', '-q', '--format', 'json', '@RELCONFIG/'], ['explain', 'Netflix', '@RELCONFIG/'],
    ['up', '-q', './@RELCONFIG'],
    ['run', '-q', '--format', 'json'], ['run', '--migrate', '-q'], ['explain', '--view', 'Subs'], ['up', '-q', '--only', 'subs'], ['up', '-vv', '--format', 'summary'],
]


class Folder:
    """budget folder on disk + bookkeeping of where things are"""

    def __init__(self, shape):
        self.bd = cli.Budget()
        self.shape = shape
        self.base = self.bd.root if shape['layout'] == 'old' else os.path.join(self.bd.root, 'tally')
        os.makedirs(self.base, exist_ok=True)
        crlf = shape.get('crlf', False)
        w = lambda rel, text: self.bd.write(os.path.relpath(os.path.join(self.base, rel), self.bd.root), text.replace('\n', '\r\n') if crlf else text)
        s = shape['settings']
        if s != 'absent':
            text = SETTINGS_BASE
            if s in ('with_rules', 'with_rules_views'):
                text += 'merchants_file: config/merchants.rules\n'
            if s == 'with_rules_views':
                text += 'views_file: config/views.rules\n'
            if s == 'no_trailing_newline':
                text = text.rstrip('\n')
            if s == 'stale_rules_entry':
                # the entry names a rules file that is not there (renamed, not restored yet): still the user's line, comment included
                text += 'merchants_file: config/rules-2025.rules  # switch back in January\n'
            if s == 'with_retired_keys':
                # keys newer versions only warn about: still the user's lines
                text += 'home_locations:\n  - WA\n  - OR\ntravel_labels:\n  HI: Hawaii\nhome_state: WA\n'
            if s == 'starter':
                text = SETTINGS_STARTER
            if s == 'starter_merchants_hint':
                text = SETTINGS_STARTER.replace('merchants_file: config/merchants.rules', '# merchants_file: config/merchants.rules')
            w('config/settings.yaml', text)
        elif shape['rules'] != 'absent' or shape['csv'] != 'absent' or shape['views']:
            os.makedirs(os.path.join(self.base, 'config'), exist_ok=True)
        if shape['rules'] == 'no_rules_yet':
            # hand-written, but only transforms / variables / notes so far - still the user's file
            w('config/merchants.rules', '# my rules (work in progress)\nfield.memo = trim(field.memo)\nis_big = amount > 500\n# TODO: add sections\n')
        if shape['rules'] == 'half_written':
            w('config/merchants.rules', '# my rules\n[Netflix]\nmatch: contains("NETFLIX"\ncategory: Subscriptions\n\n[No Category Yet]\nmatch: contains("UBER")\n')
        if shape['rules'] == 'present':
            w('config/merchants.rules', RULES_TXT)
        if shape['csv'] != 'absent':
            w('config/merchant_categories.csv', CSV_RULES if shape['csv'] == 'rules' else CSV_EMPTY)
        if shape['bak']:
            w('config/merchant_categories.csv.bak', 'Pattern,Merchant,Category,Subcategory\nOLD BACKUP,Old,Misc,Old\n')
        if shape.get('bak') == 'twin' and shape['csv'] != 'absent':
            # an earlier backup of the SAME LENGTH and timestamp as the current CSV (one category renamed since; the folder was unpacked from an archive): other content
            cur = CSV_RULES if shape['csv'] == 'rules' else CSV_EMPTY
            w('config/merchant_categories.csv.bak', cur.replace('Streaming', 'Strexming').replace('no rules yet', 'no rules yex'))
            for n_ in ('merchant_categories.csv', 'merchant_categories.csv.bak'):
                os.utime(os.path.join(self.base, 'config', n_), (1700000000, 1700000000))
        # earlier backups need not be numbered contiguously (the user may have deleted or renamed some)
        for suf in shape.get('baks') or []:
            w('config/merchant_categories.csv' + suf, f'Pattern,Merchant,Category,Subcategory\nOLDER BACKUP {suf},Old,Misc,Old\n')
        if shape['views']:
            w('config/views.rules', VIEWS_TXT)
        if shape['notes']:
            w('config/NOTES.md', 'my notes\n')
            w('README.txt', 'budget readme\n')
        if shape.get('gitignore') is not None:
            # the user's own ignore file (the folder may be inside their git repository) - wherever init would put one
            w('.gitignore', shape['gitignore'])
            self.bd.write('.gitignore', shape['gitignore'])
        moved = 'tally/' if (shape.get('half_migrated') and shape['layout'] == 'old') else ''
        if shape['data']:
            w(moved + 'data/bank.csv', DATA_TXT)
        if shape['old_report']:
            w(moved + 'output/spending_summary.html', '<html>old report</html>')

    def close(self):
        self.bd.__exit__()


def judge(cmd, before, after, folder, case):
    """Raises Violation when the step `cmd` broke the invariant."""
    base_rel = '' if folder.shape['layout'] == 'old' else 'tally'
    # the output folder of whichever layout the command resolves (an earlier `init` may have created ./tally next to an old-style folder)
    out_prefixes = ('output/', 'tally/output/')
    is_out = lambda p: p.startswith(out_prefixes)
    kind = 'init' if cmd[0] == 'init' else ('migrate' if '--migrate' in cmd else 'analysis')
    name = 'tally ' + ' '.join(cmd)
    files_before = {p: b for p, b in before.items() if b is not None}
    files_after = {p: b for p, b in after.items() if b is not None}

    def fail(msg, klass):
        raise Violation(f'{name}: {msg}\nfolder shape: {folder.shape}', case, klass)
    if kind == 'analysis':
        for p, b in files_before.items():
            if is_out(p):
                continue
            if p not in files_after:
                fail(f'deleted {p}', 'analysis-deleted')
            if files_after[p] != b:
                fail(f'modified {p}', 'analysis-modified')
        for p in files_after:
            if p not in files_before and not is_out(p):
                fail(f'created {p} outside the output folder', 'analysis-created')
        for p in after:
            if after[p] is None and p not in before and not is_out(p):
                fail(f'created directory {p} outside the output folder', 'analysis-created-dir')
        return
    cfg = os.path.join(base_rel, 'config')
    csv_p = os.path.join(cfg, 'merchant_categories.csv')
    settings_p = os.path.join(cfg, 'settings.yaml')
    for p, b in files_before.items():
        if is_out(p):
            continue
        if files_after.get(p) == b:
            continue
        if p == settings_p and p in files_after and files_after[p].startswith(b):
            continue  # settings may only gain appended lines
        if p == csv_p and p not in files_after and any(q.startswith(p + '.bak') and c == b and q not in files_before for q, c in files_after.items()):
            continue  # the original rules are kept as a (new) backup file
        what = 'deleted' if p not in files_after else 'overwrote / modified'
        fail(f'{what} the existing file {p} (its previous content survives nowhere under an allowed name)', f'{kind}-clobber')


class Machine(RuleBasedStateMachine):
    def __init__(self):
        super().__init__()
        self.folder = None
        self.steps = []
        self.classes = set()

    @initialize(shape=shape_st)
    def setup(self, shape):
        self.shape = shape
        self.folder = Folder(shape)
        self.classes.add(shape['layout'] + '_layout')
        if shape['csv'] != 'absent':
            self.classes.add('legacy_csv_present')
        if shape['bak']:
            self.classes.add('existing_bak')
        if shape.get('baks'):
            self.classes.add('existing_bak_gap')
        if shape.get('gitignore') is not None:
            self.classes.add('user_gitignore')
        if shape.get('crlf'):
            self.classes.add('crlf_files')
        self.pre_config = any(shape[k] not in ('absent', False) for k in ('settings', 'rules', 'csv', 'views'))

    @precondition(lambda self: self.folder is not None)
    @rule(i=st.integers(0, len(COMMANDS) - 1))
    def run(self, i):
        self.steps.append(i)
        step(self.folder, COMMANDS[i], {'shape': self.shape, 'steps': list(self.steps)})
        if COMMANDS[i][0] == 'init' and self.pre_config:
            self.classes.add('init_on_existing')
        if '--migrate' in COMMANDS[i]:
            self.classes.add('up_migrate')

    def teardown(self):
        if self.folder is not None:
            self.folder.close()
            if _stats is not None:
                nt = len(self.steps) >= 2 and self.pre_config and bool(self.classes & {'init_on_existing', 'up_migrate'})
                _stats.case(jhash([self.shape, self.steps]), nt, self.classes, sample={'shape': self.shape, 'commands': [' '.join(COMMANDS[i]) for i in self.steps[:8]]}
                            if len(_stats.samples) < 4 else None)


def step(folder, cmd, case):
    base = folder.base
    rel = 'config' if folder.shape['layout'] == 'old' else 'tally/config'
    argv = [a.replace('@OUT', os.path.join(base, 'output')).replace('@DATA', os.path.join(base, 'data', 'bank.csv')).replace('@RELCONFIG', rel) for a in cmd]
    if any('@OUT' in a for a in cmd):
        os.makedirs(os.path.join(base, 'output'), exist_ok=True)
    before = folder.bd.snapshot()
    cwd = folder.bd.root
    elsewhere = None
    if any('@CONFIG' in a for a in cmd):
        import tempfile
        elsewhere = tempfile.mkdtemp(prefix='c20_elsewhere_', dir=obs.tmpdir())
        cwd = elsewhere
        argv = [a.replace('@CONFIG', os.path.join(base, 'config')) for a in argv]
    r = cli.run(argv, cwd=cwd)
    after = folder.bd.snapshot()
    judge(cmd, before, after, folder, case)
    if elsewhere is not None:
        left = sorted(os.path.join(d, n)[len(elsewhere) + 1:] for d, _, fs in os.walk(elsewhere) for n in fs)
        dirs = sorted(os.path.join(d, n)[len(elsewhere) + 1:] for d, ds, _ in os.walk(elsewhere) for n in ds)
        asked = {cmd[i + 1] for i, a in enumerate(cmd[:-1]) if a == '-o' and not os.path.isabs(cmd[i + 1]) and '@' not in cmd[i + 1]}
        left = [p for p in left if p not in asked and not (asked and p.endswith(('.js', '.css')))]
        if left or dirs:
            raise Violation(f"tally {' '.join(cmd)} run from another directory created {left + dirs} there\nfolder shape: {folder.shape}", case, 'wrote-into-cwd')
        import shutil
        shutil.rmtree(elsewhere, ignore_errors=True)
    return r


_stats = None


def replay(case):
    f = Folder(case['shape'])
    try:
        for n, i in enumerate(case['steps']):
            step(f, COMMANDS[i], case)
    finally:
        f.close()
        obs.cleanup()


def shards(tier):
    n = 150 if tier == 'quick' else 1500
    return [('machine', n)] * 16


def run_shard(kind, n, seed, tier):
    global _stats
    s = Stats()
    _stats = s

    class M(Machine):
        pass
    try:
        try:
            run_state_machine_as_test(hypothesis.seed(seed)(M), settings=settings(parent=hyp_settings(n, tier, shrink=(tier == 'thorough')), stateful_step_count=8))
        except Violation as v:
            s.violation(v)
        except hypothesis.errors.Flaky as e:
            raise HarnessError(f'flaky machine: {e}')
    finally:
        _stats = None
        obs.cleanup()
    return s
