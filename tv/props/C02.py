"""C02 - Tags are the union over all matching rules; tag-only rules never categorize."""
from __future__ import annotations

from hypothesis import strategies as st

from tv import csvrules, lang, obs, rules as R
from tv.harness import Stats, Violation, campaign, jhash
from tv.props.C01 import classify, load, mcs

ID = 'C02'
LEVEL = 'exploration'
RULE = ('Generated .rules files mixing categorizing and tag-only rules with static tags (mixed case, blanks) and dynamic tags '
        '({field.x}, {source}, {extract(..)}, list comprehensions, variables, values that are empty/0/unevaluable), in both '
        'rule modes, x 2-4 transactions; tag set from MerchantEngine.match and normalize_merchant compared with the reference '
        'union; metamorphic: tag set invariant under a generated permutation of the rules; removing every tag-only rule changes '
        'no merchant/category/subcategory in either mode and removes exactly those rules\' tags; legacy CSV rules: tag union '
        'vs documented CSV semantics. Non-trivial = >=2 rules contribute tags, or a dynamic tag resolves non-empty, or a '
        'tag-only rule matches together with a categorizing rule; distinct by hash of the case.')
ASSUMPTIONS = ['dynamic tag value -> tags: falsy => none; list => one tag per non-blank item; else str(value) stripped, lower-cased',
               'commas inside a dynamic tag appear only inside parentheses (documented splitting rule)']
REQUIRED_CLASSES = ['two_rules_contribute', 'dynamic_nonempty', 'tagonly_with_categorizing', 'mode_most_specific', 'tagonly_more_specific']


@st.composite
def _case(draw):
    rf = draw(R.rule_file(max_rules=7, depth=1, tag_only_p=4))
    # make tag-only rules that out-rank categorizing rules by specificity frequent (most_specific mode)
    if rf['rules'] and draw(st.booleans()):
        base = draw(st.sampled_from(rf['rules']))
        extra = {'name': 'Specific Tagger', 'match': ['and', [base['match'], ['cmp', ['name', 'amount'], [['!=', ['num', 123456]]]],
                                                              ['match', 'contains', None, '']]],
                 'category': '', 'subcategory': draw(st.sampled_from(['', 'TagSub'])), 'merchant': draw(st.sampled_from([None, 'Tag Merchant'])),
                 'priority': draw(st.sampled_from([None, 90])), 'tags': ['specific'], 'lets': base['lets'], 'fields': []}
        pos = draw(st.integers(0, len(rf['rules'])))
        rf = dict(rf, rules=rf['rules'][:pos] + [extra] + rf['rules'][pos:])
    txns = draw(R.txn_list(rf))
    if draw(st.booleans()):
        # a tag-only rule guarded by the transaction's own source written in another letter case (== ignores case)
        src = txns[0].get('source') or 'Amex'
        rf = dict(rf, rules=rf['rules'] + [{'name': 'Source Guard', 'match': ['and', [['cmp', ['name', 'source'], [['==', ['str', src.swapcase()]]]], ['cmp', ['name', 'amount'], [['!=', ['num', 123456]]]]]],
                                            'category': '', 'subcategory': '', 'merchant': None, 'priority': None, 'tags': ['via-source-guard'], 'lets': [], 'fields': []}])
    n = len(rf['rules'])
    return {'kind': 'rules', 'rf': rf, 'txns': txns, 'rows': draw(lang.rows_opt),
            'perm': draw(st.permutations(list(range(n)))), 'mode': draw(st.sampled_from(['first_match', 'most_specific']))}


def check(case, stats: Stats):
    if case.get('kind') == 'csv':
        return check_csv(case, stats)
    rf, mode = case['rf'], case['mode']
    text = R.render_file(rf)
    rows = lang.mk_rows(case['rows'])
    obs.clear_caches()
    try:
        engine = obs.load_engine(text, mode)
    except Exception as e:
        raise Violation(f'generated file rejected: {type(e).__name__}: {e}\n{text}', case, 'load-fails')
    path = obs.write_rules(text)
    n = len(rf['rules'])
    perm_rf = dict(rf, rules=[rf['rules'][i] for i in case['perm']])
    eng_perm = obs.load_engine(R.render_file(perm_rf), mode)
    no_tagonly = dict(rf, rules=[r for r in rf['rules'] if r['category']])
    eng_cat = obs.load_engine(R.render_file(no_tagonly), mode)
    classes = {'mode_' + mode}
    nontrivial = False
    loaded = None
    for tc in case['txns']:
        txn = lang.mk_txn(tc)
        try:
            a = obs.engine_classify(engine, txn, rows)
            b = obs.pipeline_classify(path, txn, rows, mode=mode, loaded=loaded)
            p = obs.engine_classify(eng_perm, txn, rows)
            c = obs.engine_classify(eng_cat, txn, rows)
        except obs.Crash as cr:
            raise Violation(f'{cr} on {tc}\n{text}', case, 'crash')
        loaded = b['loaded']
        try:
            ref = R.ref_classify(rf, txn, rows)
        except lang.Unspecified:
            ref = None
            classes.add('unspecified_skipped')
        if ref is not None:
            if a['tags'] != ref['tags']:
                raise Violation(f"tags from MerchantEngine.match ({mode}) = {sorted(a['tags'])}, union over matching rules = {sorted(ref['tags'])}\n"
                                f"matching rules per reference: {[i for i, t in enumerate(ref['truths']) if t]}\n{tc}\n{text}", case, 'tags-ref')
            contributing = 0
            for i, r in enumerate(rf['rules']):
                if ref['truths'][i] and r['tags']:
                    contributing += 1
            if contributing >= 2:
                classes.add('two_rules_contribute')
                nontrivial = True
            tr = R.ref_transforms(rf, txn)
            for i, r in enumerate(rf['rules']):
                if ref['truths'][i]:
                    _, v = R.ref_truth(rf, r, tr, rows)
                    dyn = [t for t in r['tags'] if not isinstance(t, str)]
                    if dyn and R.ref_tags(dict(r, tags=dyn), tr, v, rows):
                        classes.add('dynamic_nonempty')
                        nontrivial = True
            cat_true = [i for i, r in enumerate(rf['rules']) if ref['truths'][i] and r['category']]
            tag_true = [i for i, r in enumerate(rf['rules']) if ref['truths'][i] and not r['category']]
            if cat_true and tag_true:
                classes.add('tagonly_with_categorizing')
                nontrivial = True
                if any(rf['rules'][i]['name'] == 'Specific Tagger' for i in tag_true):
                    classes.add('tagonly_more_specific')
        if b['tags'] != a['tags']:
            raise Violation(f"normalize_merchant tags {sorted(b['tags'])} != engine tags {sorted(a['tags'])} ({mode})\n{tc}\n{text}", case, 'tags-pipeline')
        if any(t != t.lower() or not t.strip() or t != t.strip() for t in a['tags']):
            raise Violation(f"tag set contains a non-lower-cased, blank or unstripped tag: {sorted(a['tags'])!r}\n{tc}\n{text}", case, 'tags-form')
        if p['tags'] != a['tags']:
            raise Violation(f"tag set depends on rule order ({mode}): {sorted(a['tags'])} vs {sorted(p['tags'])} after permutation {case['perm']}\n{tc}\n{text}",
                            case, 'tags-order')
        # neutrality of tag-only rules
        if mcs(c) != mcs(a):
            raise Violation(f'removing the tag-only rules changed merchant/category/subcategory ({mode}) from {mcs(a)} to {mcs(c)}\n{tc}\n{text}',
                            case, 'tagonly-categorizes')
        if mcs(b) != mcs(a) and a['matched']:
            raise Violation(f'normalize_merchant {mcs(b)} vs engine {mcs(a)} ({mode})', case, 'engine-vs-pipeline')
        if not c['tags'] <= a['tags']:
            raise Violation(f"removing tag-only rules added tags: {sorted(c['tags'] - a['tags'])}", case, 'tags-neutral')
        if ref is not None:
            only = set()
            tr = R.ref_transforms(rf, txn)
            for i, r in enumerate(rf['rules']):
                if ref['truths'][i] and not r['category']:
                    _, v = R.ref_truth(rf, r, tr, rows)
                    only |= R.ref_tags(r, tr, v, rows)
            if a['tags'] != c['tags'] | only:
                raise Violation(f"tags with tag-only rules {sorted(a['tags'])} != tags without {sorted(c['tags'])} + the tag-only rules' own tags {sorted(only)}\n{tc}\n{text}",
                                case, 'tags-neutral')
    stats.case(jhash(case), nontrivial, classes, sample={'mode': mode, 'rules': text[:500], 'txn': case['txns'][0]})


@st.composite
def csv_case(draw):
    rules = draw(csvrules.csv_file(max_rules=6, escapes=True, tag_only_p=4))
    txns = []
    for _ in range(draw(st.integers(2, 3))):
        t = draw(lang.txn_case)
        if rules:
            r = draw(st.sampled_from(rules))
            lits = [w for w in lang.WORDS if w.isalnum() and w in r['pattern']]
            t = dict(t, description=' '.join(draw(st.lists(lang.word, min_size=1, max_size=2)) + lits))
        txns.append(t)
    return {'kind': 'csv', 'rules': rules, 'txns': txns}


def check_csv(case, stats: Stats):
    from tally.merchant_utils import get_all_rules, normalize_merchant
    rules = [r for r in case['rules'] if not csvrules.looks_like_expression(r['pattern']) and not r['pattern'].startswith('#')]
    stats.excluded['csv_pattern_looks_like_expression(D-csv-heuristic)'] += len(case['rules']) - len(rules)
    text = csvrules.render_csv(rules)
    obs.clear_caches()
    path = obs.write_rules(text, 'merchant_categories.csv')
    loaded = get_all_rules(path)
    nontrivial = False
    for tc in case['txns']:
        txn = lang.mk_txn(tc)
        ref = csvrules.ref_classify(rules, txn)
        try:
            m, c, s, info = normalize_merchant(txn['description'], loaded, amount=txn['amount'], txn_date=txn.get('date'))
        except Exception as e:
            raise Violation(f'normalize_merchant (CSV) raised {type(e).__name__}: {e}', case, 'csv-crash')
        got = set((info or {}).get('tags', []))
        if got != ref['tags']:
            raise Violation(f"CSV rules: tags {sorted(got)} != union over matching rows {sorted(ref['tags'])}\n{tc}\n{text}", case, 'csv-tags')
        without = [r for r in rules if r['category']]
        ref2 = csvrules.ref_classify(without, txn)
        if (ref2['merchant'], ref2['category']) != (ref['merchant'], ref['category']):
            raise Violation('reference self-check failed', case, 'harness')
        if len([r for r in rules if r['tags'] and csvrules.rule_true(r, txn)]) >= 2:
            nontrivial = True
    stats.case(jhash(case), nontrivial, {'csv_case'}, sample=None)


def replay(case):
    try:
        check(case, Stats())
    finally:
        obs.cleanup()


def shards(tier):
    n = 120 if tier == 'quick' else 2500
    return [('rules', n)] * 13 + [('csv', n * 4)] * 3


def run_shard(kind, n, seed, tier):
    s = Stats()
    try:
        campaign(_case() if kind == 'rules' else csv_case(), check, n, seed, s, tier)
    finally:
        obs.cleanup()
    return s
