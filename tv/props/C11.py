"""C11 - tally up honours every setting: report = totals(classify(parse(sources)))."""
from __future__ import annotations

import json
import os

from hypothesis import strategies as st

from tv import budget as B, obs
from tv.drv import cli
from tv.harness import Stats, Violation, campaign, jhash
from tv.props.C12 import decode_html

ID = 'C11'
LEVEL = 'exploration'
RULE = ('Generated budget directories: 1-4 transaction sources with independent format/delimiter/has_header/decimal_separator/sign/'
        'negate_amount/description-template settings (several sources often share the SAME format string while differing in per-source '
        'settings) + 0-2 supplemental sources (with their own delimiter / decimal-separator settings); rules as .rules (transforms, variables, cross-source conditions), legacy CSV or none; '
        'rule_mode first_match/most_specific/absent/invalid; views present/absent/corrupt; documented currency formats; a source file '
        'missing, binary garbage, a directory, or readable rows followed (beyond the first 8 KiB) by undecodable bytes. `tally up` is run in-process (JSON -v, HTML report decoded with html.parser+json, '
        'non-quiet summary) and on a fresh-subprocess sample. Oracle (glue validation): transactions, per-merchant counts/totals, the '
        'six flow totals and view membership must equal the composition parse_generic_csv -> analyze_transactions -> '
        'classify_by_sections computed by the harness directly from ITS OWN generated settings (never through load_config/cmd_run); every '
        'file must yield the transactions its rows yield when read one at a time (its own description, amount, date, captures, '
        'location - files contain repeated charges differing only in extra columns, and rules deciding on those columns); '
        'metamorphic: deleting one source file or editing one source changes only that source\'s transactions, and a missing/unreadable '
        'source is named in the non-quiet output. Non-trivial = >=2 sources with different settings and >=1 categorised transaction '
        'and one of {transform, most_specific, supplemental query, decimal comma, non-comma delimiter, views}.')
ASSUMPTIONS = ['component correctness (parse/classify/total/views) is decided by C01-C10; C11 decides that every setting reaches its component',
               'the in-process driver is re-confirmed on a fresh-subprocess sample per run']
REQUIRED_CLASSES = ['merchant_in_two_categories', 'repeated_charge_distinct_columns', 'duplicate_source_name', 'same_format_different_settings', 'source_missing_or_unreadable', 'source_fails_part_way', 'supplemental', 'supplemental_own_settings', 'views', 'csv_rules', 'most_specific', 'decimal_comma', 'subprocess_sample']

case_st = st.fixed_dictionaries({'b': B.budget(), 'drop': st.integers(0, 3), 'sub': st.integers(0, 39)})


def txn_key(merchant, cat, sub, t):
    return (merchant, cat, sub, t['description'], t['amount'], t['month'], tuple(sorted(t.get('tags', []))), t['source'])


def report_view(data):
    """(multiset of transactions, figures, sections) from decoded spendingData."""
    txns = []
    for cat in data['categoryView'].values():
        for sub in cat['subcategories'].values():
            for m in sub['merchants'].values():
                for t in m['transactions']:
                    txns.append(txn_key(m['displayName'], m['category'], m['subcategory'], t))
    figs = {k: data[k] for k in ('incomeTotal', 'spendingTotal', 'creditsTotal', 'cashFlow', 'transfersIn', 'transfersOut', 'transfersNet', 'investmentTotal')}
    secs = {s['title']: {m['displayName'] for m in s['merchants'].values()} for s in data['sections'].values()}
    return sorted(txns), figs, secs


def expected_view(comp):
    st_ = comp['stats']
    txns = []
    for name, bm in st_['by_merchant'].items():
        for t in bm['transactions']:
            txns.append(txn_key(name, bm['category'], bm['subcategory'], t))
    figs = {'incomeTotal': st_['income_total'], 'spendingTotal': st_['spending_total'], 'creditsTotal': st_['credits_total'], 'cashFlow': st_['cash_flow'],
            'transfersIn': st_['transfers_in'], 'transfersOut': st_['transfers_out'], 'transfersNet': st_['transfers_net'], 'investmentTotal': st_['investment_total']}
    secs = {n: ms for n, ms in (comp['views'] or {}).items() if ms}
    return sorted(txns), figs, secs


def run_up(bd, runner, case):
    r_json = runner(['up', '-q', '--format', 'json', '-v', bd.config], cwd=bd.root)
    r_html = runner(['up', '-q', bd.config], cwd=bd.root)
    return r_json, r_html


def observe(b, bd, mat, case, runner=cli.run, label='in-process', classes_out=None):
    classes_out = classes_out if classes_out is not None else set()
    comp = B.compose(b, mat)
    if comp['row_mismatch']:
        rm = comp['row_mismatch']
        raise Violation(f'a row of source {rm["source"]!r} is not classified from its own columns:\n  as read from the file: {rm["in_file"]}\n  the same row read '
                        f'alone with the same rules and settings: {rm["alone"]}', case, 'row-classification')
    r_json, r_html = run_up(bd, runner, case)
    settings_text = open(bd.path('config/settings.yaml')).read()
    ctx = f'\n--- settings.yaml\n{settings_text}\n--- rules: {b["rules_kind"]}'
    if comp['stats'] is None:
        if r_json.code == 0:
            raise Violation(f'no source yields a transaction, yet `tally up` ({label}) exited 0{ctx}', case, 'empty-run')
        return comp, None
    for name, r in (('--format json', r_json), ('html', r_html)):
        if r.code != 0 or obs.crashed(r.err):
            raise Violation(f'`tally up {name}` ({label}) failed (exit {r.code}):\n{(r.err or r.out)[-1200:]}{ctx}', case, 'up-failed')
    try:
        jd = json.loads(r_json.out)
    except ValueError:
        raise Violation(f'`tally up -q --format json` ({label}) did not print JSON:\n{r_json.out[:500]}', case, 'up-json')
    html_path = bd.path('output/spending_summary.html')
    if not os.path.exists(html_path):
        raise Violation(f'`tally up` ({label}) wrote no report at output/spending_summary.html{ctx}', case, 'up-no-report')
    data = decode_html(open(html_path, encoding='utf-8').read(), case)
    got_t, got_f, got_s = report_view(data)
    exp_t, exp_f, exp_s = expected_view(comp)
    if got_t != exp_t:
        only_r = [t for t in got_t if t not in exp_t][:4]
        only_e = [t for t in exp_t if t not in got_t][:4]
        raise Violation(f'the report ({label}) does not contain exactly the transactions of totals(classify(parse(sources))):\n  only in report: {only_r}\n  only in composition: {only_e}'
                        f'\n  counts {len(got_t)} vs {len(exp_t)}{ctx}', case, 'report-transactions')
    if got_f != exp_f:
        raise Violation(f'flow totals in the report ({label}) {got_f} != composition {exp_f}{ctx}', case, 'report-figures')
    if b['views'] not in (None, 'corrupt') and got_s != exp_s:
        raise Violation(f'view membership in the report ({label}) {got_s} != composition {exp_s}{ctx}', case, 'report-views')
    if b['views'] in (None, 'corrupt') and got_s:
        raise Violation(f'report shows views {got_s} although no (valid) views file is configured', case, 'report-views')
    jm = {m['name']: m for m in jd['merchants']}
    st_ = comp['stats']
    if set(jm) != set(st_['by_merchant']):
        raise Violation(f'JSON output ({label}) lists merchants {sorted(jm)} != composition {sorted(st_["by_merchant"])}{ctx}', case, 'json-merchants')
    for name, bm in st_['by_merchant'].items():
        if jm[name]['count'] != bm['count'] or abs(jm[name]['total'] - bm['total']) > 0.00501 or jm[name]['category'] != bm['category'] or \
                dict(jm[name].get('raw_descriptions', {})) != dict(bm['raw_descriptions']):
            raise Violation(f'JSON output ({label}) for merchant {name!r}: {jm[name]["count"]}/{jm[name]["total"]}/{jm[name]["category"]} vs composition '
                            f'{bm["count"]}/{bm["total"]}/{bm["category"]}{ctx}', case, 'json-figures')
    # per-category totals are sums over TRANSACTIONS (a merchant may have transactions in several categories)
    from tally.classification import normalize_amount
    exp_cat = {}
    for t in comp['txns']:
        k = (t['category'], t['subcategory'])
        exp_cat[k] = exp_cat.get(k, 0.0) + normalize_amount(t['amount'], t.get('tags', []))
    got_cat = {(c['category'], c['subcategory']): c['total'] for c in jd.get('by_category', [])}
    for k, v in exp_cat.items():
        if v > 0.0051 and (k not in got_cat or abs(got_cat[k] - v) > 0.00501):
            raise Violation(f'JSON output ({label}): category {k} totals {got_cat.get(k)} but its transactions add up to {round(v, 2)}{ctx}', case, 'json-by-category')
    for k, v in got_cat.items():
        if abs(exp_cat.get(k, 0.0) - v) > 0.00501:
            raise Violation(f'JSON output ({label}): category {k} totals {v} but its transactions add up to {round(exp_cat.get(k, 0.0), 2)}{ctx}', case, 'json-by-category')
    if len({t['merchant'] for t in comp['txns']}) < len({(t['merchant'], t['category'], t['subcategory']) for t in comp['txns']}):
        classes_out.add('merchant_in_two_categories')
    if data.get('currencyFormat') != b['currency']:
        raise Violation(f'currency format {data.get("currencyFormat")!r} != configured {b["currency"]!r}', case, 'currency')
    return comp, (got_t, got_f, got_s)


def check(case, stats: Stats):
    b = case['b']
    classes = set()
    with cli.Budget() as bd:
        mat = B.materialise(b, bd)
        comp, view = observe(b, bd, mat, case, classes_out=classes)
        # a missing / unreadable source is reported by name (non-quiet) and leaves the others intact (checked by the composition above)
        broken = [i for i in mat['sources'] if i['state'] != 'ok']
        if broken and comp['stats'] is not None:
            r = cli.run(['up', '--format', 'summary', bd.config], cwd=bd.root)
            for i in broken:
                nm = i['src']['name']
                if not any(nm in line and any(w in line.lower() for w in ('not found', 'error', 'missing', 'cannot', 'could not', 'unreadable', 'failed', 'skipp', 'unable')) for line in (r.out + r.err).splitlines()):
                    raise Violation(f'source {nm!r} ({i["state"]}) is not reported by `tally up`:\n{(r.out + r.err)[:1200]}', case, 'source-not-reported')
            classes.add('source_missing_or_unreadable')
            if any(i['state'] == 'late_garbage' for i in broken):
                classes.add('source_fails_part_way')
        # metamorphic: delete one healthy source file -> only its transactions disappear
        ok = [k for k, i in enumerate(mat['sources']) if i['state'] == 'ok']
        names = [i['src']['name'] for i in mat['sources']]
        if len(set(names)) < len(names):
            classes.add('duplicate_source_name')
        if view is not None and len(ok) >= 2 and len(set(names)) == len(names):
            k = ok[case['drop'] % len(ok)]
            gone = mat['sources'][k]['src']['name']
            with cli.Budget() as bd2:
                mat2 = B.materialise(b, bd2, drop_source=k)
                comp2, view2 = observe(b, bd2, mat2, case)
                if view2 is not None:
                    strip = lambda t: (t[0],) + t[3:]  # the merchant-level category label is last-writer across sources
                    rest1 = sorted(strip(t) for t in view[0] if t[-1] != gone)
                    rest2 = sorted(strip(t) for t in view2[0] if t[-1] != gone)
                    # cross-source state (e.g. first-writer merchant labels) is not part of the statement: compare per-transaction facts
                    if rest1 != rest2:
                        raise Violation(f'deleting the file of source {gone!r} changed transactions of OTHER sources:\n  before {[t for t in rest1 if t not in rest2][:3]}\n  after  '
                                        f'{[t for t in rest2 if t not in rest1][:3]}', case, 'mm-delete-source')
                    if any(t[-1] == gone for t in view2[0]):
                        raise Violation(f'source {gone!r} has no file but still contributes transactions', case, 'mm-delete-source')
            classes.add('mm_delete_source')
        # views are independent: a view kept alone in the views file has the members it has in the full file
        if view is not None and b['views'] not in (None, 'corrupt') and len(b['views']['views']) >= 2:
            k = case['drop'] % len(b['views']['views'])
            one = b['views']['views'][k]
            b3 = dict(b, views=dict(b['views'], views=[one]))
            with cli.Budget() as bd3:
                mat3 = B.materialise(b3, bd3)
                r3 = cli.run(['up', '-q', bd3.config], cwd=bd3.root)
                if r3.code == 0 and os.path.exists(bd3.path('output/spending_summary.html')):
                    data3 = decode_html(open(bd3.path('output/spending_summary.html'), encoding='utf-8').read(), case)
                    alone = {sec['title']: {m['displayName'] for m in sec['merchants'].values()} for sec in data3['sections'].values()}
                    if alone.get(one['name'], set()) != view[2].get(one['name'], set()):
                        raise Violation(f"view {one['name']!r} has members {sorted(view[2].get(one['name'], set()))} in the full views file but {sorted(alone.get(one['name'], set()))} "
                                        f"when it is the only view\n{open(bd.path('config/views.rules')).read()}", case, 'mm-view-alone')
                    classes.add('mm_view_alone')
        # fresh-process sample
        if case['sub'] == 0 and comp['stats'] is not None:
            observe(b, bd, mat, case, runner=cli.run_subprocess, label='fresh subprocess')
            classes.add('subprocess_sample')
        # classes
        srcs = [i['src'] for i in mat['sources'] if i['state'] == 'ok']
        fmts = {}
        for s in srcs:
            fmts.setdefault(s['format'], []).append({k: s.get(k) for k in ('delimiter', 'has_header', 'negate_amount', 'decimal_separator')})
        if any(len(v) >= 2 and len({json.dumps(x, sort_keys=True) for x in v}) >= 2 for v in fmts.values()):
            classes.add('same_format_different_settings')
        for s_ in b['sources']:
            seen = {}
            for r in s_['rows']:
                if r['kind'] == 'good':
                    seen.setdefault((r['desc'], r['cents'], r['date'], r['style'] == r['style']), set()).add(json.dumps([r['customs'], r['loc']], sort_keys=True))
            if s_['state'] == 'ok' and any(len(v) > 1 for v in seen.values()):
                classes.add('repeated_charge_distinct_columns')
        if b['supplemental']:
            classes.add('supplemental')
            if (b.get('supp_style') or {}).get('delim', ',') != ',' or (b.get('supp_style') or {}).get('dec', '.') != '.':
                classes.add('supplemental_own_settings')
        if b['views'] not in (None, 'corrupt'):
            classes.add('views')
        if b['rules_kind'] == 'csv':
            classes.add('csv_rules')
        if b['rule_mode'] == 'most_specific':
            classes.add('most_specific')
        if any(s.get('decimal_separator') == ',' for s in srcs):
            classes.add('decimal_comma')
        categorised = comp['stats'] is not None and any(bm['category'] != 'Unknown' for bm in comp['stats']['by_merchant'].values())
        diff_settings = len({json.dumps({k: v for k, v in s.items() if k not in ('name', 'file')}, sort_keys=True) for s in srcs}) >= 2
        nontrivial = diff_settings and categorised and bool(classes & {'most_specific', 'supplemental', 'decimal_comma', 'views'} or (b.get('rf') or {}).get('transforms')
                                                            or any('delimiter' in s for s in srcs))
        stats.case(jhash(case), nontrivial, classes, sample={'settings': mat['settings']['data_sources'][:2], 'rules': b['rules_kind']} if len(stats.samples) < 3 else None)


def replay(case):
    try:
        check(case, Stats())
    finally:
        obs.cleanup()


def shards(tier):
    n = 60 if tier == 'quick' else 500
    return [('random', n)] * 16


def run_shard(kind, n, seed, tier):
    s = Stats()
    try:
        campaign(case_st, check, n, seed, s, tier)
    finally:
        obs.cleanup()
    return s
