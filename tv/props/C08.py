"""C08 - A rule that fails to evaluate is skipped; it never aborts classification."""
from __future__ import annotations

import copy
import csv
import os
import re
from datetime import date, datetime

from hypothesis import assume, strategies as st

from tv import lang, obs, rules as R
from tv.harness import Stats, Violation, campaign, jhash

ID = 'C08'
LEVEL = 'exploration'
RULE = ('Healthy generated rule files into which freely ill-typed / partial ("wild") expressions are injected as match, let, '
        'field, dynamic tag, top-level variable and transform (operands of any kind in any position, string functions on '
        'numbers/None/lists, arithmetic on text/dates, aggregates of scalars/empty lists, next() on exhausted generators, '
        'unknown fields/variables, bad regexes, bad subscripts, missing dates, huge integers); every file is first checked to be '
        'accepted by the loader. Oracle: match / normalize_merchant / parse_generic_csv / classify_merchants return normally, '
        'and removal equivalence observed on tally itself: the outcome equals that of the file without the rules that do not '
        'match when loaded alone, tags/fields equal the union of each tag/field taken alone, failing lets behave as None, '
        'failing variables as undefined, failing transforms as absent; views files with ill-typed filters/variables: no '
        'exception, an unevaluable filter excludes the merchant, other views unchanged. Non-trivial = >=1 item fails for the '
        'item AND >=1 other rule/view applies; distinct by hash of the case.')
ASSUMPTIONS = ['which items "fail" is observed through the public evaluate_transaction/evaluate API raising ExpressionError',
               'string literals inside dynamic tags contain no parentheses or commas (documented tag-splitting rule)']
REQUIRED_CLASSES = ['csv_unusable_pattern_row', 'fail_match', 'fail_let', 'fail_field', 'fail_tag', 'fail_variable', 'fail_transform', 'fail_view_filter',
                    'err_TypeError', 'err_ExpressionError', 'csv_pipeline', 'never_evaluable_rule']


def tag_safe(e):
    for n in lang.walk(e):
        if n[0] == 'str' and any(ch in n[1] for ch in '(),{}'):
            return False
        if n[0] in ('match',) and any(ch in n[3] for ch in '(),{}'):
            return False
        if n[0] == 'anyof' and any(ch in x for x in n[1] for ch in '(),{}'):
            return False
        if n[0] == 'raw' and n[1] in ('...',):
            return False
    return True


@st.composite
def rules_case(draw):
    rf = draw(R.rule_file(max_rules=5, depth=1, transforms=True))
    rs = [dict(r) for r in rf['rules']]
    # inject wild expressions
    for _ in range(draw(st.integers(1, 4))):
        where = draw(st.sampled_from(['match', 'match', 'let', 'field', 'tag', 'var', 'transform', 'newrule', 'shadow_fail', 'shared_let', 'never']))
        w = draw(lang.wild_expr(2))
        if where == 'shadow_fail':
            # rule A binds (by let) a name that a LATER let-free rule B reads as a top-level variable / data source / primitive, and A's own match fails for the item:
            # A must simply not exist for it, so B sees the global meaning of the name
            name = draw(st.sampled_from(['threshold', 'is_large', 'label', 'orders', 'amount']))
            val = {'threshold': ['num', draw(st.sampled_from([-5, 0, 10 ** 6]))], 'is_large': ['lit', draw(st.booleans())], 'label': ['str', draw(lang.word)],
                   'orders': ['listcomp', ['name', 'r'], 'r', ['name', 'receipts'], ['lit', False]], 'amount': ['num', draw(st.sampled_from([-1, 10 ** 6]))]}[name]
            reader = {'threshold': ['cmp', ['name', 'amount'], [['>', ['var', 'threshold']]]], 'is_large': ['var', 'is_large'], 'label': ['match', 'contains', ['var', 'label'], ''],
                      'orders': ['cmp', ['len', ['name', 'orders']], [['>', ['num', 0]]]], 'amount': ['cmp', ['name', 'amount'], [['>', ['num', 100]]]]}[name]
            fail = draw(st.sampled_from([['cmp', ['field', 'nosuch'], [['==', ['str', 'x']]]], ['cmp', ['name', 'amount'], [['>', ['str', 'x']]]], w]))
            a = {'name': 'Shadow A', 'match': fail, 'category': 'ShadowCat', 'subcategory': '', 'merchant': None, 'priority': None, 'tags': ['a'], 'lets': [[name, val]], 'fields': []}
            b_ = {'name': 'Reader B', 'match': reader, 'category': 'ReaderCat', 'subcategory': '', 'merchant': None, 'priority': None, 'tags': ['b'], 'lets': [], 'fields': []}
            pos = draw(st.integers(0, len(rs)))
            rs[pos:pos] = [a, b_]
            if name in ('threshold', 'is_large', 'label') and not any(v[0] == name for v in rf['vars']):
                gv = {'threshold': ['num', 50], 'is_large': ['cmp', ['name', 'amount'], [['>', ['num', 100]]]], 'label': ['name', 'description']}[name]
                rf = dict(rf, vars=list(rf['vars']) + [[name, gv]])
            continue
        if where == 'never' and not any(r_['name'] == 'Never Evaluable' for r_ in rs):
            # a rule whose condition can NEVER be evaluated (a bad regular expression is evaluated whatever the transaction): it never applies -
            # not the first time, not the hundredth time the same pattern text is met in the process
            bad = draw(st.sampled_from(lang.BAD_REGEX))
            empty = ['listcomp', ['name', 'r'], 'r', ['name', 'orders'], ['lit', False]]
            m = draw(st.sampled_from([['not', ['match', 'regex', None, bad]], ['or', [['match', 'regex', None, bad], ['lit', True]]],
                                      ['cmp', ['call', 'extract', [['str', bad]]], [['==', ['str', '']]]], ['if', ['match', 'regex', None, bad], ['lit', True], ['lit', True]],
                                      # arithmetic on a value that is no number (also when it is empty / falsy) is a type error whatever the transaction
                                      ['cmp', ['bin', '/', ['name', 'amount'], ['str', '']], [['<', ['num', 20]]]], ['cmp', ['bin', '%', ['name', 'amount'], ['str', '']], [['==', ['num', 0]]]],
                                      ['cmp', ['bin', '/', ['num', 1], empty], [['>=', ['num', 0]]]],
                                      # next() without a default over an empty selection has no value (an exhausted generator) - it is not None
                                      ['cmp', ['nextgen', ['attr', 'r', 'item'], 'r', ['name', 'orders'], ['lit', False], None], [['!=', ['str', 'cancelled']]]],
                                      ['not', ['nextgen', ['name', 'r'], 'r', ['name', 'receipts'], ['cmp', ['attr', 'r', 'amount'], [['>', ['num', 10 ** 9]]]], None]],
                                      # a row has no such column: subscripting it is an error (not None), as is subscripting an empty source
                                      ['cmp', ['sub', ['sub', ['name', 'orders'], ['num', 0]], ['str', 'nosuchcolumn']], [['!=', ['str', 'cancelled']]]],
                                      ['not', ['sub', ['sub', ['name', 'receipts'], ['num', -1]], ['str', 'Status']]],
                                      # a list comprehension whose condition cannot be evaluated for a row fails as a whole (rows are not silently dropped)
                                      ['and', [['cmp', ['len', ['listcomp', ['name', 'r'], 'r', ['name', 'orders'], ['cmp', ['attr', 'r', 'item'], [['>', ['num', 5]]]]]], [['==', ['num', 0]]]],
                                               ['cmp', ['len', ['name', 'orders']], [['>', ['num', 0]]]]]]]))
            rs.insert(draw(st.integers(0, len(rs))), {'name': 'Never Evaluable', 'match': m, 'category': draw(st.sampled_from(['', 'NeverCat'])), 'subcategory': '', 'merchant': None,
                                                     'priority': None, 'tags': ['never-evaluable'], 'lets': [], 'fields': []})
            continue
        if where == 'shared_let':
            # two rules carry the textually SAME let; in the earlier rule it cannot be evaluated (it reads a name only the later rule binds first),
            # so the earlier rule simply does not apply - the later rule's own evaluation of the same text must be unaffected
            key_src = draw(st.sampled_from([['txn', 'amount'], ['num', 9.99], ['name', 'description']]))
            shared = draw(st.sampled_from([
                ['hits', ['listcomp', ['name', 'r'], 'r', ['name', 'orders'], ['cmp', ['attr', 'r', 'amount'], [['==', ['var', 'key']]]]]],
                ['hits', ['bin', '+', ['var', 'key'], ['num', 1]]],
                ['hits', ['call', 'trim', [['var', 'key']]]],
                ['hits', ['if', ['cmp', ['var', 'key'], [['==', ['var', 'key']]]], ['str', 'yes'], ['str', 'no']]]]))
            use = draw(st.sampled_from([['cmp', ['var', 'hits'], [['!=', ['str', 'zzz']]]], ['cmp', ['len', ['var', 'hits']], [['>=', ['num', 0]]]], ['exists', ['var', 'hits']]]))
            a = {'name': 'Forgot Key', 'match': use, 'category': 'ForgotCat', 'subcategory': '', 'merchant': None, 'priority': None, 'tags': ['forgot'], 'lets': [shared], 'fields': []}
            b_ = {'name': 'Has Key', 'match': use, 'category': 'KeyCat', 'subcategory': '', 'merchant': None, 'priority': None, 'tags': ['haskey', ['dyn', ['var', 'hits']]],
                  'lets': [['key', key_src], shared], 'fields': [['wf', ['var', 'hits']]]}
            pos = draw(st.integers(0, len(rs)))
            rs[pos:pos] = [a, b_]
            continue
        if where == 'newrule' or not rs:
            rs.insert(draw(st.integers(0, len(rs))), {'name': 'Wild', 'match': w, 'category': draw(st.sampled_from(['', 'WildCat'])), 'subcategory': '',
                                                     'merchant': None, 'priority': None, 'tags': ['wild'], 'lets': [], 'fields': []})
            continue
        editable = [j for j, r_ in enumerate(rs) if r_['name'] != 'Never Evaluable']
        if not editable:
            continue
        i = draw(st.sampled_from(editable))
        r = rs[i]
        if where == 'match':
            r['match'] = draw(st.sampled_from([w, ['and', [r['match'], w]], ['or', [w, r['match']]]]))
        elif where == 'let':
            name = draw(st.sampled_from(['m', 't', 'flag', 'lbl', 'w1', 'threshold', 'is_large', 'label', 'orders', 'receipts', 'amount']))
            r['lets'] = list(r['lets']) + [[name, w]]
            if draw(st.booleans()):
                r['match'] = ['or', [r['match'], ['cmp', ['var', name], [['>', ['num', 1]]]]]]
        elif where == 'field':
            r['fields'] = [f for f in r['fields'] if f[0] != 'wf'] + [['wf', w]]
        elif where == 'tag':
            if draw(st.integers(0, 2)) == 0:
                # tag expressions are not validated when the file is loaded: text the parser rejects (syntax outside the language, or no Python at all)
                # is accepted in a tag and must simply make that tag inapplicable
                w = ['raw', draw(st.sampled_from(['description[0:4]', '2 ** 3', '7 // 2', 'amount is None', 'lambda: 1', 'description[::-1]', 'amount >', '-', 'not', 'a b',
                                                  'amount @ 2', '~1', '1 if']))]
            if tag_safe(w):
                r['tags'] = list(r['tags']) + [['dyn', w]]
        elif where == 'var':
            rf = dict(rf, vars=[v for v in rf['vars'] if v[0] != 'is_large'] + [['is_large', w]])
        else:
            rf = dict(rf, transforms=list(rf['transforms']) + [[draw(st.sampled_from(['description', 'memo'])), w]])
    rf = dict(rf, rules=rs)
    return {'kind': 'rules', 'rf': rf, 'txns': draw(R.txn_list(rf)), 'rows': draw(lang.rows_opt)}


def err_class(msg):
    m = re.search(r'Cannot evaluate expression: (\w+)', msg)
    return 'err_' + (m.group(1) if m else 'ExpressionError')


def safe(fn, what, case, *a, **k):
    try:
        return fn(*a, **k)
    except obs.Crash as c:
        raise Violation(f'{what}: {c}', case, 'crash:' + type(c.exc).__name__)
    except Violation:
        raise
    except Exception as e:
        raise Violation(f'{what} raised {type(e).__name__}: {e}', case, 'crash:' + type(e).__name__)


def outcome(d):
    return (d['merchant'], d['category'], d['subcategory'], frozenset(d['tags']), repr(sorted(d['extra_fields'].items(), key=lambda kv: kv[0])))


def load_or_none(text, mode='first_match'):
    from tally.merchant_engine import MerchantParseError
    try:
        return obs.load_engine(text, mode)
    except MerchantParseError:
        return None


# ------------------------------------------------------------------------------------------------
# legacy CSV rule files: a row whose pattern is no regular expression is just that row
# ------------------------------------------------------------------------------------------------
CSV_BAD = lang.BAD_REGEX + ['a{4294967296}', 'x{99999999999,}', '(?P<n>a)(?P<n>b)', '(?<=a*)b', '\\1(a)', '[z-a]', '(?i', 'a**']


@st.composite
def csvbad_case(draw):
    from tv import csvrules
    good = [r for r in draw(csvrules.csv_file(max_rules=4, escapes=True, quotes=True)) if not csvrules.looks_like_expression(r['pattern']) and not r['pattern'].startswith('#')]
    good.append({'pattern': 'NETFLIX', 'mods': [], 'merchant': 'Netflix', 'category': 'Subscriptions', 'subcategory': 'Streaming', 'tags': ['recurring']})
    bad = [{'pattern': draw(st.sampled_from(CSV_BAD)), 'mods': draw(st.lists(csvrules.amount_mod, max_size=1)), 'merchant': 'Broken', 'category': draw(st.sampled_from(['Broken Cat', ''])),
            'subcategory': '', 'tags': ['broken']} for _ in range(draw(st.integers(1, 2)))]
    pos = [draw(st.integers(0, len(good))) for _ in bad]
    txns = [draw(lang.txn_case) for _ in range(2)] + [dict(draw(lang.txn_case), description='NETFLIX.COM aaa b')]
    return {'kind': 'csvbad', 'good': good, 'bad': bad, 'pos': pos, 'txns': txns}


def check_csvbad(case, stats: Stats):
    import re as _re
    from tv import csvrules
    from tally.merchant_utils import load_merchant_rules, normalize_merchant
    really_bad = []
    for b in case['bad']:
        try:
            _re.compile(b['pattern'], _re.IGNORECASE)
        except (_re.error, OverflowError, RecursionError):
            really_bad.append(b)
    if not really_bad:
        return
    rows = list(case['good'])
    for b, p_ in zip(case['bad'], case['pos']):
        rows.insert(min(p_, len(rows)), b)
    outs = []
    for variant in (rows, [r for r in rows if r not in really_bad]):
        text = csvrules.render_csv(variant)
        obs.clear_caches()
        path = obs.write_rules(text, 'merchant_categories.csv')
        try:
            rules = load_merchant_rules(path)
        except Exception as e:
            raise Violation(f'load_merchant_rules raised {type(e).__name__}: {e}\n{text}', case, 'csv-load')
        res = []
        for tc in case['txns']:
            t = lang.mk_txn(R.nonzero(tc))
            try:
                m, c, s_, info = normalize_merchant(t['description'], rules, amount=t['amount'], txn_date=t.get('date'), data_source=t.get('source'))
            except Exception as e:
                raise Violation(f'normalize_merchant raised {type(e).__name__}: {e} for {tc["description"]!r} because of a CSV row whose pattern is no regular expression\n{text}',
                                case, 'crash:' + type(e).__name__)
            res.append((m, c, s_, tuple(sorted((info or {}).get('tags', []) or []))))
        outs.append(res)
    if outs[0] != outs[1]:
        raise Violation(f'with the unusable CSV row(s) {[b["pattern"] for b in really_bad]} the outcome is {outs[0]}, without them {outs[1]}\n{csvrules.render_csv(rows)}', case, 'removal:csv-row')
    stats.case(jhash(case), True, {'csv_unusable_pattern_row'}, sample={'bad': [b['pattern'] for b in really_bad]} if len(stats.samples) < 3 else None)


def check(case, stats: Stats):
    if case['kind'] == 'views':
        return check_views(case, stats)
    if case['kind'] == 'csvbad':
        return check_csvbad(case, stats)
    from tally import expr_parser as ep
    rf = case['rf']
    text = R.render_file(rf)
    rows = lang.mk_rows(case['rows'])
    obs.clear_caches()
    try:
        engine = load_or_none(text)
    except Exception as e:
        raise Violation(f'loader raised {type(e).__name__}: {e} (neither accepted nor rejected with a parse error)\n{text}', case, 'loader-crash')
    if engine is None:
        stats.classes['rejected_by_loader'] += 1
        return  # the statement quantifies over accepted files
    path = obs.write_rules(text)
    classes = set()
    nontrivial = False
    loaded = None
    for tc in case['txns']:
        txn = lang.mk_txn(tc)
        base = safe(obs.engine_classify, f'MerchantEngine.match on {tc}\n{text}', case, engine, txn, rows)
        pipe = safe(obs.pipeline_classify, f'normalize_merchant on {tc}\n{text}', case, path, txn, rows, loaded=loaded)
        loaded = pipe['loaded']
        if base['matched'] and (pipe['merchant'], pipe['category'], pipe['subcategory']) != (base['merchant'], base['category'], base['subcategory']):
            raise Violation(f'normalize_merchant {pipe["category"]!r} vs engine {base["category"]!r} on {tc}\n{text}', case, 'engine-vs-pipeline')
        if pipe['tags'] != base['tags']:
            raise Violation(f'normalize_merchant tags {sorted(pipe["tags"])} vs engine {sorted(base["tags"])}\n{text}', case, 'engine-vs-pipeline')
        failing = set()
        # --- which transforms / variables / lets / matches fail, observed through the public API
        state = copy.deepcopy(txn)
        kept_tr = []
        from tally.merchant_utils import apply_transforms
        for k, e in rf['transforms']:
            src = lang.render(e)
            try:
                ep.evaluate_transaction(src, copy.deepcopy(state))
                ok = True
            except ep.ExpressionError as x:
                ok = False
                failing.add('fail_transform')
                classes.add(err_class(str(x)))
            except Exception as x:
                raise Violation(f'transform expression {src!r} raised {type(x).__name__}: {x}', case, 'crash:' + type(x).__name__)
            if ok:
                kept_tr.append([k, e])
                safe(apply_transforms, 'apply_transforms', case, state, [(f'field.{k}', src)])
        gvars = {}
        kept_vars = []
        for n, e in rf['vars']:
            try:
                gvars[n.lower()] = ep.evaluate_transaction(lang.render(e), copy.deepcopy(state), data_sources=rows)
                kept_vars.append([n, e])
            except ep.ExpressionError as x:
                failing.add('fail_variable')
                classes.add(err_class(str(x)))
            except Exception as x:
                raise Violation(f'variable {n} = {lang.render(e)!r} raised {type(x).__name__}: {x}', case, 'crash:' + type(x).__name__)
        new_rules = []
        for r in rf['rules']:
            v = dict(gvars)
            lets2 = []
            for n, e in r['lets']:
                try:
                    v[n.lower()] = ep.evaluate_transaction(lang.render(e), copy.deepcopy(state), v, rows)
                    lets2.append([n, e])
                except ep.ExpressionError as x:
                    v[n.lower()] = None
                    lets2.append([n, ['raw', 'None']])
                    failing.add('fail_let')
                    classes.add(err_class(str(x)))
                except Exception as x:
                    raise Violation(f'let {n} = {lang.render(e)!r} raised {type(x).__name__}: {x}', case, 'crash:' + type(x).__name__)
            try:
                ep.matches_transaction(lang.render(r['match']), copy.deepcopy(state), v, rows)
            except ep.ExpressionError as x:
                failing.add('fail_match')
                classes.add(err_class(str(x)))
            except Exception as x:
                raise Violation(f'match {lang.render(r["match"])!r} raised {type(x).__name__}: {x} on {tc}', case, 'crash:' + type(x).__name__)
            new_rules.append(dict(r, lets=lets2))
        # --- (a) failing transforms absent, failing variables undefined, failing lets = None  ==> same outcome
        rf_a = dict(rf, transforms=kept_tr, vars=kept_vars, rules=new_rules)
        eng_a = load_or_none(R.render_file(rf_a))
        if eng_a is not None:
            ra = safe(obs.engine_classify, 'match (failing items neutralised)', case, eng_a, txn, rows)
            if outcome(ra) != outcome(base):
                raise Violation(f'outcome changes when the failing transforms/variables are removed and failing lets bound to None:\n  {outcome(base)}\n  {outcome(ra)}\n'
                                f'{tc}\n--- original\n{text}\n--- neutralised\n{R.render_file(rf_a)}', case, 'removal:items')
        # --- (a') a rule whose condition can never be evaluated never applies
        if 'Never Evaluable' in base['matching'] or 'never-evaluable' in base['tags']:
            raise Violation(f"the rule [Never Evaluable] (its condition evaluates a bad regular expression for every transaction) was applied to {tc}:\n  {outcome(base)}\n{text}", case,
                            'never-evaluable-applied')
        if any(r['name'] == 'Never Evaluable' for r in rf['rules']):
            classes.add('never_evaluable_rule')
        # --- (b) rules that do not match when loaded alone do not exist for this transaction
        alone = []
        for r in rf['rules']:
            e1 = load_or_none(R.render_file(dict(rf, rules=[r])))
            alone.append(bool(safe(obs.engine_classify, 'single-rule match', case, e1, txn, rows)['matching']) if e1 is not None else False)
        eng_b = load_or_none(R.render_file(dict(rf, rules=[r for r, a in zip(rf['rules'], alone) if a])))
        rb = safe(obs.engine_classify, 'match (non-matching rules removed)', case, eng_b, txn, rows)
        if outcome(rb) != outcome(base):
            raise Violation(f'outcome changes when the rules that fail / are false for this transaction are removed:\n  {outcome(base)}\n  {outcome(rb)}\n'
                            f'{tc}\nalone-truth={alone}\n{text}', case, 'removal:rules')
        # --- (c) tags / fields: union of each one taken alone
        for r, a in zip(rf['rules'], alone):
            if not a:
                continue
            if len(r['tags']) >= 2:
                whole = safe(obs.engine_classify, 'tags', case, load_or_none(R.render_file(dict(rf, rules=[dict(r, category='X')]))), txn, rows)['tags']
                parts = set()
                for t in r['tags']:
                    parts |= safe(obs.engine_classify, 'single tag', case, load_or_none(R.render_file(dict(rf, rules=[dict(r, category='X', tags=[t])]))), txn, rows)['tags']
                    if not isinstance(t, str):
                        one = safe(obs.engine_classify, 'single tag', case, load_or_none(R.render_file(dict(rf, rules=[dict(r, category='X', tags=[t])]))), txn, rows)['tags']
                        if not one:
                            failing.add('fail_tag')
                if whole != parts:
                    raise Violation(f'tags of rule {r["name"]} {sorted(whole)} != union of its tags taken one at a time {sorted(parts)}\n{tc}\n{text}', case, 'removal:tags')
            if r['fields'] and r['category']:
                whole = safe(obs.engine_classify, 'fields', case, load_or_none(R.render_file(dict(rf, rules=[r]))), txn, rows)['extra_fields']
                parts = {}
                for f in r['fields']:
                    one = safe(obs.engine_classify, 'single field', case, load_or_none(R.render_file(dict(rf, rules=[dict(r, fields=[f])]))), txn, rows)['extra_fields']
                    if not one:
                        failing.add('fail_field')
                    parts.update(one)
                if repr(sorted(whole.items())) != repr(sorted(parts.items())):
                    raise Violation(f'extra fields {whole!r} != union of fields taken one at a time {parts!r}\n{tc}\n{text}', case, 'removal:fields')
            # --- (c2) a let: binding (failing or not) governs only what reads it: fields that read none of the rule's let names are the same without the lets
            if r['fields'] and r['lets'] and r['category']:
                let_names = {n.lower() for n, _ in r['lets']}
                free = [f for f in r['fields'] if not ({str(n[1]).lower() for n in lang.walk(f[1]) if n[0] in ('var', 'name') and isinstance(n[1], str)} & let_names)]
                if free:
                    with_lets = safe(obs.engine_classify, 'fields with lets', case, load_or_none(R.render_file(dict(rf, rules=[dict(r, match=['lit', True], fields=free)]))), txn, rows)['extra_fields']
                    without = safe(obs.engine_classify, 'fields without lets', case, load_or_none(R.render_file(dict(rf, rules=[dict(r, match=['lit', True], fields=free, lets=[])]))), txn, rows)['extra_fields']
                    classes.add('fields_independent_of_lets')
                    if repr(sorted(with_lets.items())) != repr(sorted(without.items())):
                        raise Violation(f'fields that read none of the let bindings {sorted(let_names)} are {with_lets!r} with the bindings and {without!r} without them\n{tc}\n'
                                        f'{R.render_file(dict(rf, rules=[dict(r, match=["lit", True], fields=free)]))}', case, 'removal:lets-vs-fields')
        classes |= failing
        if failing and sum(alone) >= 1:
            nontrivial = True
    # --- (d) whole-file parse: one bad row/rule never loses other rows
    check_csv_pipeline(case, rf, text, path, rows, classes)
    stats.case(jhash(case), nontrivial, classes, sample={'rules': text[:700], 'txn': case['txns'][0]})


def check_csv_pipeline(case, rf, text, path, rows, classes):
    from tally.format_parser import parse_format_string
    from tally.merchant_utils import get_all_rules, get_transforms
    from tally.parsers import parse_generic_csv
    txns = [t for t in case['txns'] if t['date'] and t['description'].strip() and t['amount'] != 0 and '\n' not in t['description']]
    if not txns:
        return
    d = os.path.dirname(path)
    fp = os.path.join(d, 'data.csv')
    with open(fp, 'w', newline='', encoding='utf-8') as f:
        w = csv.writer(f)
        w.writerow(['Date', 'Description', 'Amount', 'Memo', 'Type'])
        for t in txns:
            fld = t['field'] or {}
            w.writerow([t['date'], t['description'], repr(t['amount']), fld.get('memo', ''), fld.get('type', '')])
    spec = parse_format_string('{date:%Y-%m-%d},{description},{amount},{memo},{type}')
    obs.clear_caches()
    try:
        rules = get_all_rules(path)
        transforms = get_transforms(path)
        out = parse_generic_csv(fp, spec, rules, source_name='Amex', transforms=transforms, data_sources=rows)
    except Exception as e:
        raise Violation(f'parse_generic_csv aborted on a file of {len(txns)} good rows: {type(e).__name__}: {e}\n{text}', case, 'crash:' + type(e).__name__)
    classes.add('csv_pipeline')
    if len(out) != len(txns):
        raise Violation(f'parse_generic_csv returned {len(out)} transactions for {len(txns)} well-formed rows (rows lost because a rule failed?)\n{text}\n{txns}',
                        case, 'rows-lost')


# ------------------------------------------------------------------------------------------------
# views
# ------------------------------------------------------------------------------------------------
BAD_FILTERS = ['payments >= 12', 'total > "x"', 'sum(total) > 1', 'avg(category) > 0', 'months + category > 3', '"a" in months', 'sum(by("decade")) > 1',
               'stddev("x") > 0', 'max_val(1) > 0', 'unknownvar > 1', 'tags > 3', 'category.lower() == "food"', 'payments[0] > 1', '-category < 0',
               'round(payments) > 1', 'abs(tags) > 1', 'count(5) > 0', 'min(3) > 0', 'sum(by(5)) > 0', 'period("week") > 1', 'total / category > 1',
               'max(sum(by("month"))) > "a"', 'nosuchfn(total)', 'total > 0 and payments > 1', 'sum(payments, 1, 2) > 0', 'cv < category',
               'category == "Food" and (total % "2") == 0', 'myvar > 1', 'localbad + 1 > 0', 'months >= period("fortnight")']
GOOD_FILTERS = ['True', 'total > 0', 'category == "Food"', 'months >= 2', '"recurring" in tags', 'sum(payments) > 100', 'max(sum(by("month"))) > 50',
                'cv < 0.5', 'total > 0 or payments > 1', 'False and payments > 1', 'count(payments) >= 2 and avg(payments) > 10', 'total > myvar', 'g2 or total > 50']

view_st = st.fixed_dictionaries({
    'name': st.sampled_from(['Alpha', 'Beta', 'Gamma', 'Delta', 'Food & Drink', 'Big', 'Rare']),
    'filter': st.one_of(st.sampled_from(BAD_FILTERS), st.sampled_from(GOOD_FILTERS)),
    'vars': st.lists(st.tuples(st.sampled_from(['localbad', 'lv', 'Thresh', 'myvar', 'g2']), st.sampled_from(['total / "x"', 'sum(payments)', 'payments + 1', '5', 'unknown + 1', 'avg(payments) * (2 if months > 1 else "twice")'])).map(list),
                     max_size=2, unique_by=lambda p: p[0]),
})
merchant_st = st.fixed_dictionaries({
    'merchant': st.sampled_from(['M1', 'M2', 'M3', 'M4']),
    'category': st.sampled_from(['Food', 'Bills', '']),
    'tags': st.lists(st.sampled_from(['recurring', 'x']), max_size=2),
    'payments': st.lists(st.tuples(st.integers(-20000, 50000).map(lambda c: c / 100.0), st.integers(0, 13), st.integers(1, 28)).map(list), min_size=0, max_size=6),
})
views_case = st.fixed_dictionaries({
    'kind': st.just('views'),
    'globals': st.lists(st.tuples(st.sampled_from(['myvar', 'g2']), st.sampled_from(['payments * 2', 'total > 100', 'sum(category)', '12'])).map(list), max_size=2,
                        unique_by=lambda p: p[0]),
    'views': st.lists(view_st, min_size=1, max_size=5, unique_by=lambda v: v['name']),
    'merchants': st.lists(merchant_st, min_size=1, max_size=4, unique_by=lambda m: m['merchant']),
})


def render_views(globals_, views):
    lines = ['# generated views']
    for n, e in globals_:
        lines.append(f'{n} = {e}')
    for v in views:
        lines += ['', f"[{v['name']}]"] + [f'{n} = {e}' for n, e in v['vars']] + [f"filter: {v['filter']}"]
    return '\n'.join(lines) + '\n'


def mk_groups(ms):
    groups = []
    for m in ms:
        txns = []
        for amt, mo, day in m['payments']:
            y, mm = divmod(mo + 9, 12)
            txns.append({'amount': amt, 'date': datetime(2023 + y, mm + 1, day), 'category': m['category'], 'subcategory': 'S', 'merchant': m['merchant'],
                         'tags': list(m['tags'])})
        groups.append({'merchant': m['merchant'], 'category': m['category'], 'subcategory': 'S', 'transactions': txns})
    return groups


def check_views(case, stats: Stats):
    from tally import expr_parser as ep, section_engine as se
    text = render_views(case['globals'], case['views'])
    try:
        cfg = se.parse_sections(text)
    except se.SectionParseError:
        stats.classes['rejected_by_loader'] += 1
        return
    except Exception as e:
        raise Violation(f'parse_sections raised {type(e).__name__}: {e}\n{text}', case, 'loader-crash')
    groups = mk_groups(case['merchants'])
    try:
        res = se.classify_merchants(cfg, copy.deepcopy(groups), num_months=12, period_data={'month': 12, 'year': 2})
    except Exception as e:
        raise Violation(f'classify_merchants raised {type(e).__name__}: {e}\n{text}\n{case["merchants"]}', case, 'crash:' + type(e).__name__)
    classes = set()
    nontrivial = False
    member = {v['name']: {m['merchant'] for m in res[v['name']]} for v in case['views']}
    # each view alone gives the same members (views are independent; a failing view does not disturb the others)
    for v in case['views']:
        cfg1 = se.parse_sections(render_views(case['globals'], [v]))
        try:
            r1 = se.classify_merchants(cfg1, copy.deepcopy(groups), num_months=12, period_data={'month': 12, 'year': 2})
        except Exception as e:
            raise Violation(f'classify_merchants raised {type(e).__name__}: {e} for single view\n{render_views(case["globals"], [v])}', case, 'crash:' + type(e).__name__)
        alone = {m['merchant'] for m in r1[v['name']]}
        if alone != member[v['name']]:
            raise Violation(f"view {v['name']} has members {sorted(member[v['name']])} in the full file but {sorted(alone)} alone\n{text}", case, 'view-independence')
    # an unevaluable filter (observed by evaluating it directly) excludes the merchant
    for g in groups:
        gv = {}
        for n, e in case['globals']:
            try:
                gv[n] = ep.evaluate(e, ep.create_context(transactions=g['transactions'], num_months=12, variables=dict(gv), period_data={'month': 12, 'year': 2}))
            except ep.ExpressionError:
                gv[n] = None
            except Exception as x:
                raise Violation(f'view variable {n} = {e!r} raised {type(x).__name__}: {x}', case, 'crash:' + type(x).__name__)
        for v in case['views']:
            lv = dict(gv)
            for n, e in v['vars']:
                try:
                    lv[n] = ep.evaluate(e, ep.create_context(transactions=g['transactions'], num_months=12, variables=dict(lv), period_data={'month': 12, 'year': 2}))
                except ep.ExpressionError as x:
                    lv[n] = None
                    classes.add('fail_view_variable')
                except Exception as x:
                    raise Violation(f'view variable {n} = {e!r} raised {type(x).__name__}: {x}', case, 'crash:' + type(x).__name__)
            try:
                val = ('val', bool(ep.evaluate(v['filter'], ep.create_context(transactions=g['transactions'], num_months=12, variables=lv, period_data={'month': 12, 'year': 2}))))
            except ep.ExpressionError as x:
                val = ('err',)
                classes.add('fail_view_filter')
                classes.add(err_class(str(x)))
            except Exception as x:
                raise Violation(f'filter {v["filter"]!r} raised {type(x).__name__}: {x}', case, 'crash:' + type(x).__name__)
            is_member = g['merchant'] in member[v['name']]
            if val[0] == 'err' and is_member:
                raise Violation(f"filter {v['filter']!r} cannot be evaluated for {g['merchant']} but the merchant is listed in view {v['name']}\n{text}", case, 'view-error-member')
            if val[0] == 'val' and val[1] != is_member and not any(n.lower() != n for n, _ in v['vars'] + case['globals']):
                raise Violation(f"filter {v['filter']!r} is {val[1]} for {g['merchant']} but membership in {v['name']} is {is_member}\n{text}", case, 'view-membership')
            if val[0] == 'err' and any(member[o['name']] for o in case['views'] if o is not v):
                nontrivial = True
    stats.case(jhash(case), nontrivial, classes, sample={'views': text[:400], 'merchants': [m['merchant'] for m in case['merchants']]})


def replay(case):
    try:
        check(case, Stats())
    finally:
        obs.cleanup()


def shards(tier):
    n = 250 if tier == 'quick' else 3000
    return [('rules', n)] * 12 + [('views', n * 4)] * 3 + [('csvbad', n * 4)]


def run_shard(kind, n, seed, tier):
    s = Stats()
    try:
        campaign(rules_case() if kind == 'rules' else (csvbad_case() if kind == 'csvbad' else views_case), check, n, seed, s, tier)
    finally:
        obs.cleanup()
    return s
