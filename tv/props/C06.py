"""C06 - Totals conserve money: each transaction is counted once, in exactly one bucket."""
from __future__ import annotations

import itertools
from datetime import datetime
from fractions import Fraction

from hypothesis import strategies as st

from tv.harness import Stats, Violation, campaign, jhash

ID = 'C06'
LEVEL = 'exploration'
RULE = ('Hypothesis-generated transaction lists (0-40 txns; amounts in cents and arbitrary finite floats of both signs and '
        'zero; special tags income/investment/transfer in every letter case mixed with ordinary tags; 1-6 merchants, 1-4 '
        'category pairs, up to 14 months, 1-3 sources) analysed by analyze_transactions and compared with an exact-rational '
        'reference, with singleton additivity, a generated permutation and a generated 2-way partition; plus the exhaustive '
        'product of special-tag subsets x case styles x amount classes for categorize_amount. Non-trivial = at least two of '
        'the six buckets populated AND two transactions sharing a merchant or month; distinct by hash of the case. Plus report-level splits: '
        'the same 2-8 statement rows as one data source and as 2-3 files (source names may repeat) must give the same `tally up --format json`.')
ASSUMPTIONS = ['float sums compared with tolerance 1e-6*max(1, sum|amount|) because accumulation order differs',
               'per-key totals are compared with the sum of the same transactions analysed one at a time (additivity), '
               'so no particular normalisation of signs is assumed beyond the six flow buckets']
REQUIRED_CLASSES = ['two_special_tags', 'special_tag_nonlower', 'zero_amount', 'negative_amount', 'split_same_source_name']

SPECIAL = ['income', 'investment', 'transfer']
ORD_TAGS = ['recurring', 'food', 'Business', 'INCOMES', 'transfers', 'invest', 'x', 'refund', 'Refund', 'REFUND']
BUCKETS = ['income', 'investment', 'transfer_in', 'transfer_out', 'spending', 'credits']
STAT_KEYS = {'income': 'income_total', 'investment': 'investment_total', 'transfer_in': 'transfers_in',
             'transfer_out': 'transfers_out', 'spending': 'spending_total', 'credits': 'credits_total'}


def case_style(tag, style):
    if style == 0:
        return tag
    if style == 1:
        return tag.upper()
    if style == 2:
        return tag.capitalize()
    return ''.join(ch.upper() if i % 2 else ch for i, ch in enumerate(tag))


@st.composite
def txn_lists(draw):
    n_m = draw(st.integers(1, 6))
    n_c = draw(st.integers(1, 4))
    n_mo = draw(st.integers(1, 14))
    cents = st.one_of(
        st.integers(-500000, 500000),
        st.sampled_from([0, 1, -1, 99, -99, 100, 1999, -1999, 10 ** 9, -(10 ** 9)]),
    ).map(lambda c: c / 100.0)
    amount = st.one_of(cents, cents, cents,
                       st.floats(min_value=-1e7, max_value=1e7, allow_nan=False, allow_infinity=False),
                       st.sampled_from([0.0, -0.0, 0.005, -0.005, 1e-9]))
    sp = st.lists(st.tuples(st.sampled_from(SPECIAL), st.integers(0, 3)), max_size=3).map(
        lambda l: [case_style(t, s) for t, s in l])
    tagl = st.one_of(st.just([]), st.lists(st.sampled_from(ORD_TAGS), max_size=2),
                     st.tuples(sp, st.lists(st.sampled_from(ORD_TAGS), max_size=2)).map(lambda p: p[0] + p[1]),
                     sp)
    txn = st.fixed_dictionaries({
        'a': amount,
        'tags': st.one_of(tagl, tagl, st.none()),
        'm': st.integers(0, n_m - 1),
        'c': st.integers(0, n_c - 1),
        'mo': st.integers(0, n_mo - 1),
        'day': st.integers(1, 28),
        'src': st.integers(0, 2),
    })
    txns = draw(st.lists(txn, min_size=0, max_size=40))
    perm = draw(st.permutations(list(range(len(txns)))))
    split = draw(st.lists(st.booleans(), min_size=len(txns), max_size=len(txns)))
    return {'txns': txns, 'perm': perm, 'split': split}


def build(t, src_override=None):
    y, m = divmod(t['mo'] + 10, 12)  # months span a year boundary
    d = {
        'amount': t['a'],
        'merchant': f"M{t['m']}",
        'category': f"Cat{t['c'] % 2}",
        'subcategory': f"Sub{t['c']}",
        'date': datetime(2023 + y, m + 1, t['day']),
        'description': f"M{t['m']}",
        'raw_description': f"RAW M{t['m']} #{t['day']}",
        'source': src_override if src_override is not None else f"S{t['src']}",
    }
    if t['tags'] is not None:
        d['tags'] = list(t['tags'])
    return d


def ref_bucket(amount, tags):
    tl = {x.lower() for x in (tags or [])}
    if 'income' in tl:
        return 'income'
    if 'investment' in tl:
        return 'investment'
    if 'transfer' in tl:
        return 'transfer_in' if amount > 0 else 'transfer_out'
    return 'spending' if amount > 0 else 'credits'


def close(a, b, tol):
    return abs(Fraction(a) - Fraction(b)) <= tol


def figures(stats):
    """Additive scalar figures of an analysis, keyed by name."""
    f = {k: stats[k] for k in ['income_total', 'spending_total', 'credits_total', 'transfers_in', 'transfers_out',
                               'investment_total', 'cash_flow', 'transfers_net', 'total_transactions', 'count', 'total']}
    for m, d in stats['by_merchant'].items():
        f[f'merchant:{m}:total'] = d['total']
        f[f'merchant:{m}:count'] = d['count']
    for (c, s), d in stats['by_category'].items():
        f[f'category:{c}/{s}:total'] = d['total']
        f[f'category:{c}/{s}:count'] = d['count']
    for mo, v in stats['by_month'].items():
        f[f'month:{mo}'] = v
    return f


def check(case, stats: Stats):
    from tally.analyzer import analyze_transactions
    txns = [build(t) for t in case['txns']]
    try:
        res = analyze_transactions([dict(t) for t in txns])
    except Exception as e:  # the statement quantifies over any list of classified transactions
        raise Violation(f'analyze_transactions raised {type(e).__name__}: {e}', case, 'analyze-raises')
    tol = Fraction(1, 10 ** 6) * max(1, sum(abs(Fraction(t['amount'])) for t in txns))

    # 1. six buckets against the exact reference
    exp = {b: Fraction(0) for b in BUCKETS}
    for t in txns:
        exp[ref_bucket(t['amount'], t.get('tags'))] += abs(Fraction(t['amount']))
    for b in BUCKETS:
        if not close(res[STAT_KEYS[b]], exp[b], tol):
            raise Violation(f'{STAT_KEYS[b]}={res[STAT_KEYS[b]]!r} but each transaction contributing |amount| to exactly one '
                            f'bucket gives {float(exp[b])!r}', case, 'bucket-total')
    if not close(res['cash_flow'], exp['income'] - exp['spending'] + exp['credits'], tol):
        raise Violation(f"cash_flow={res['cash_flow']!r} != income - spending + credits", case, 'cash-flow')
    if not close(res['transfers_net'], exp['transfer_in'] - exp['transfer_out'], tol):
        raise Violation(f"transfers_net={res['transfers_net']!r} != in - out", case, 'transfers-net')

    # 2. the three groupings add up to the same grand total / count
    sm = sum(Fraction(d['total']) for d in res['by_merchant'].values())
    sc = sum(Fraction(d['total']) for d in res['by_category'].values())
    smo = sum(Fraction(v) for v in res['by_month'].values())
    gt = Fraction(res['total_transactions'])
    if not (close(sm, gt, tol) and close(sc, gt, tol) and close(smo, gt, tol)):
        raise Violation(f'grouped totals disagree: merchants={float(sm)} categories={float(sc)} months={float(smo)} '
                        f"grand={res['total_transactions']}", case, 'group-sums')
    cm = sum(d['count'] for d in res['by_merchant'].values())
    cc = sum(d['count'] for d in res['by_category'].values())
    if not (cm == cc == res['count'] == len(txns)):
        raise Violation(f"counts disagree: merchants={cm} categories={cc} count={res['count']} n={len(txns)}", case, 'counts')

    # 3. additivity: every per-key figure equals the sum over the same transactions analysed one by one
    single = [analyze_transactions([dict(t)]) for t in txns]
    full = figures(res)
    acc = {}
    for s in single:
        for k, v in figures(s).items():
            acc[k] = acc.get(k, Fraction(0)) + Fraction(v)
    for k in set(full) | set(acc):
        if not close(full.get(k, 0), acc.get(k, 0), tol):
            raise Violation(f'figure {k}: whole list gives {full.get(k)!r}, sum of one-at-a-time analyses gives '
                            f'{float(acc.get(k, 0))!r}', case, 'additivity')

    # 4. permutation and partition (different source labels) invariance
    perm = [dict(txns[i]) for i in case['perm']]
    rp = figures(analyze_transactions(perm))
    for k in set(full) | set(rp):
        if not close(full.get(k, 0), rp.get(k, 0), tol):
            raise Violation(f'figure {k} depends on order: {full.get(k)!r} vs {rp.get(k)!r} after permutation', case, 'order')
    a = [dict(t, source='PART-A') for t, s in zip(txns, case['split']) if s]
    b = [dict(t, source='PART-B') for t, s in zip(txns, case['split']) if not s]
    rab = figures(analyze_transactions(b + a))
    for k in set(full) | set(rab):
        if not close(full.get(k, 0), rab.get(k, 0), tol):
            raise Violation(f'figure {k} depends on the split across sources: {full.get(k)!r} vs {rab.get(k)!r}', case,
                            'partition')
    # every transaction is listed exactly once under its merchant
    listed = sum(len(d['transactions']) for d in res['by_merchant'].values())
    paym = sum(len(d['payments']) for d in res['by_merchant'].values())
    if listed != len(txns) or paym != len(txns):
        raise Violation(f'{listed} transactions / {paym} payments listed under merchants for {len(txns)} inputs', case, 'listed')

    # classification of the case
    populated = {ref_bucket(t['amount'], t.get('tags')) for t in txns}
    ms = [t['merchant'] for t in txns]
    mos = [t['date'].strftime('%Y-%m') for t in txns]
    share = len(set(ms)) < len(ms) or len(set(mos)) < len(mos)
    cl = []
    for t in txns:
        tl = [x for x in (t.get('tags') or []) if x.lower() in SPECIAL]
        if len({x.lower() for x in tl}) >= 2:
            cl.append('two_special_tags')
        if any(x != x.lower() for x in tl):
            cl.append('special_tag_nonlower')
        if t['amount'] == 0:
            cl.append('zero_amount')
        if t['amount'] < 0:
            cl.append('negative_amount')
        if 'tags' not in t:
            cl.append('tags_missing')
    stats.case(jhash(case), len(populated) >= 2 and share, set(cl) | {f'buckets_{len(populated)}'},
               sample={'txns': [[t['a'], t['tags'], f"M{t['m']}", t['mo']] for t in case['txns'][:8]], 'n': len(txns)})


AMOUNT_CLASSES = [-1e15, -1234.56, -0.01, -0.0, 0.0, 0.01, 0.005, 19.99, 1e15]


def exhaustive(stats: Stats):
    from tally.classification import categorize_amount, normalize_amount, is_excluded_from_spending
    n = 0
    for r in range(0, 4):
        for subset in itertools.permutations(SPECIAL, r):
            for style in range(4):
                for other in ([], ['food'], ['Incomes', 'x']):
                    for pos in (0, 1):
                        tags = [case_style(t, style) for t in subset]
                        tags = other + tags if pos else tags + other
                        for amt in AMOUNT_CLASSES:
                            n += 1
                            case = {'kind': 'categorize', 'amount': amt, 'tags': tags}
                            replay(case)
                            stats.case(jhash(case), bool(subset) or amt <= 0, ['exhaustive_categorize'],
                                       sample=case if n % 977 == 0 else None)
    stats.exhaustive['categorize_amount: special-tag permutations x 4 case styles x 3 other-tag shapes x 9 amount classes'] = True


def replay(case):
    if case.get('kind') == 'categorize':
        from tally.classification import categorize_amount, is_excluded_from_spending
        amt, tags = case['amount'], case['tags']
        got = categorize_amount(amt, list(tags))
        nz = {k: v for k, v in got.items() if v != 0}
        if set(got) != set(BUCKETS):
            raise Violation(f'categorize_amount keys {sorted(got)}', case, 'categorize-keys')
        if amt == 0:
            if nz:
                raise Violation(f'zero amount put {nz} in a bucket', case, 'categorize')
        else:
            b = ref_bucket(amt, tags)
            if nz != {b: abs(amt)}:
                raise Violation(f'categorize_amount({amt!r}, {tags!r}) = {nz}, expected {{{b!r}: {abs(amt)!r}}}', case, 'categorize')
        exp_excl = bool({t.lower() for t in tags} & set(SPECIAL))
        if bool(is_excluded_from_spending(list(tags))) != exp_excl:
            raise Violation(f'is_excluded_from_spending({tags!r}) != {exp_excl}', case, 'excluded')
        return
    if case.get('kind') == 'split':
        return check_split(case, Stats())
    check(case, Stats())


# ------------------------------------------------------------------------------------------------
# the same statement rows kept as ONE data source or split over several files (which may carry the same source name): `tally up` reports the
# same figures
# ------------------------------------------------------------------------------------------------
SPLIT_RULES = ('[Payroll]\nmatch: contains("PAYROLL")\ncategory: Income\nsubcategory: Salary\ntags: income\n\n[Vanguard]\nmatch: contains("VANGUARD")\ncategory: Savings\n'
               'subcategory: Retirement\ntags: Investment\n\n[Xfer]\nmatch: contains("XFER")\ncategory: Transfers\nsubcategory: Own\ntags: TRANSFER\n\n[Grocer]\nmatch: contains("GROCER")\n'
               'category: Food\nsubcategory: Grocery\n\n[Cafe]\nmatch: contains("CAFE")\ncategory: Food\nsubcategory: Coffee\ntags: treat\n')
split_st = st.fixed_dictionaries({
    'kind': st.just('split'),
    'txns': st.lists(st.tuples(st.sampled_from(['PAYROLL ACME', 'VANGUARD 401K', 'XFER SAVINGS', 'GROCER', 'CAFE', 'REFUND SHOP', 'GROCER 2']),
                               st.integers(-300000, 300000).filter(bool), st.integers(1, 12), st.integers(1, 28)).map(list), min_size=2, max_size=8),
    'cuts': st.lists(st.integers(1, 7), min_size=1, max_size=2, unique=True),
    'names': st.lists(st.sampled_from(['Bank', 'Bank', 'Card']), min_size=3, max_size=3),
})


def _round(x):
    if isinstance(x, float):
        return round(x, 6)
    if isinstance(x, dict):
        return {k: _round(v) for k, v in x.items()}
    if isinstance(x, list):
        return [_round(v) for v in x]
    return x


def check_split(case, stats):
    import json as _json
    from tv.drv import cli
    from tv import obs
    txns = case['txns']
    cuts = sorted(c for c in case['cuts'] if 0 < c < len(txns))
    chunks = [txns[a:b] for a, b in zip([0] + cuts, cuts + [len(txns)])]
    fmt = '{date:%Y-%m-%d},{description},{amount}'

    def report(parts, names):
        with cli.Budget() as bd:
            lines = ['year: 2024', 'data_sources:']
            for i, (rows, nm) in enumerate(zip(parts, names)):
                bd.write(f'data/s{i}.csv', 'Date,Description,Amount\n' + ''.join(f'2024-{m:02d}-{d:02d},{desc},{c / 100:.2f}\n' for desc, c, m, d in rows))
                lines += [f'  - name: {nm}', f'    file: data/s{i}.csv', f'    format: "{fmt}"']
            lines.append('merchants_file: config/merchants.rules')
            bd.write('config/settings.yaml', '\n'.join(lines) + '\n')
            bd.write('config/merchants.rules', SPLIT_RULES)
            r = cli.run(['up', '-q', '--format', 'json', bd.config], cwd=bd.root)
            if r.code != 0 or obs.crashed(r.err):
                raise Violation(f'`tally up --format json` failed (exit {r.code}) for sources {names[:len(parts)]}: {(r.err or r.out)[-600:]}', case, 'split-up-failed')
            try:
                return _round(_json.loads(r.out))
            except ValueError:
                raise Violation(f'`tally up --format json` printed no JSON: {r.out[:300]}', case, 'split-json')
    whole = report([txns], ['Bank'])
    parts = report(chunks, case['names'])
    if whole != parts:
        diff = [k for k in whole if whole.get(k) != parts.get(k)]
        raise Violation(f'the same {len(txns)} rows as one source and split into {[len(c) for c in chunks]} files named {case["names"][:len(chunks)]} give different reports; differing '
                        f'sections {diff}: one source {_json.dumps({k: whole[k] for k in diff})[:500]} vs split {_json.dumps({k: parts.get(k) for k in diff})[:500]}', case, 'split-across-sources')
    same = len(chunks) > 1 and len(set(case['names'][:len(chunks)])) < len(chunks)
    stats.case(jhash(case), len(chunks) > 1, {'report_split'} | ({'split_same_source_name'} if same else set()), sample=case if same else None)


def shards(tier):
    n = 500 if tier == 'quick' else 8000
    return [('exhaustive', 0)] + [('random', n)] * 14 + [('split', max(n // 12, 40))] * 2


def run_shard(kind, n, seed, tier):
    st_ = Stats()
    if kind == 'exhaustive':
        try:
            exhaustive(st_)
        except Violation as v:
            st_.violation(v)
        return st_
    if kind == 'split':
        campaign(split_st, check_split, n, seed, st_, tier)
        return st_
    campaign(txn_lists(), check, n, seed, st_, tier)
    return st_
