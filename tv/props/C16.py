"""C16 - explain and discover describe the same classification that up applies."""
from __future__ import annotations

import json
import re
import os

from hypothesis import strategies as st

from tv import budget as B, lang, obs, rules as R
from tv.drv import cli
from tv.harness import Stats, Violation, campaign, jhash
from tv.props.C12 import decode_html

ID = 'C16'
LEVEL = 'exploration'
RULE = ('Generated budgets (1-3 sources with independent settings + a plain probe source, optional supplemental sources; .rules files whose '
        'conditions depend on description and amount only - match functions, amount comparisons, `in`, `not`, variables, let bindings, '
        'supplemental queries on the amount, tag-only rules before categorizing ones, transforms - in both rule modes; or legacy CSV '
        'rules). Three-way differential on one budget, all commands run in-process: (a) `explain --format json <merchant>` for every '
        'merchant `up` produces: category/subcategory/tags/count/total/pattern equal the `up --format json -v` entry; (b) `explain '
        '--amount A --format json <description>` for descriptions ABSENT from the data: merchant/category/subcategory/matched rule '
        'equal what `up` assigns when a row (description, A) is appended to a data file; (c) `discover --format json --limit 0`: raw '
        'descriptions with counts and sum|amount| equal the Unknown transactions in `up`\'s HTML data. Non-trivial = budget with >=1 '
        'Unknown and >=1 categorised transaction whose deciding rule uses a variable, not, in, a tag-only predecessor, most_specific '
        'ranking, a transform or a supplemental query.')
ASSUMPTIONS = ['sub-check (b) uses rules that depend only on description and amount - the only things `explain` lets the user state',
               'probe descriptions carry a unique token so that explain reaches its description path rather than a merchant/transaction search']
REQUIRED_CLASSES = ['case_variant_merchants', 'explain_text', 'explain_description_text', 'discover_text', 'explain_merchant', 'explain_description_matched', 'explain_description_unknown', 'discover_listing', 'tagonly_predecessor', 'variable_or_let',
                    'most_specific', 'transform', 'supplemental_query', 'csv_rules']

UNIQ = ['ZZQX', 'QQPROBE', 'XYZZY7']


@st.composite
def da_bool(draw, depth=1):
    """conditions over description and amount only"""
    c = draw(st.integers(0, 9 if depth > 0 else 5))
    if c <= 1:
        return ['match', draw(lang.spell(draw(st.sampled_from(['contains', 'startswith', 'normalized'])))), None, draw(lang.pattern_text)]
    if c == 2:
        return ['match', 'regex', None, draw(lang.regex_pattern)]
    if c == 3:
        return ['anyof', draw(st.lists(lang.pattern_text, min_size=1, max_size=3))]
    if c == 4:
        return ['cmp', ['name', draw(lang.spell('amount'))], [[draw(st.sampled_from(['>', '>=', '<', '<=', '==', '!='])), ['num', draw(st.sampled_from(lang.CONSTS))]]]]
    if c == 5:
        return ['cmp', ['str', draw(lang.word)], [[draw(st.sampled_from(['in', 'not in'])), ['name', 'description']]]]
    b = lambda: da_bool(depth - 1)
    if c <= 7:
        return [draw(st.sampled_from(['and', 'or'])), draw(st.lists(b(), min_size=2, max_size=2))]
    if c == 8:
        return ['not', draw(b())]
    return ['var', draw(st.sampled_from(['is_large', 'Is_Large', 'threshold_ok']))]


@st.composite
def da_rule(draw, i):
    base = draw(da_bool(1))
    lets = []
    k = draw(st.integers(0, 7))
    if k == 0:
        lets = [['t', ['bin', '*', ['name', 'amount'], ['num', 2]]]]
        base = ['and', [base, ['cmp', ['var', 't'], [['>', ['num', draw(st.sampled_from(lang.CONSTS))]]]]]]
    elif k == 1:
        base = ['or', [base, ['anygen', ['cmp', ['attr', 'r', 'amount'], [['==', ['txn', 'amount']]]], 'r', ['name', 'orders'], None]]]
    elif k == 2:
        lets = [['m', ['listcomp', ['name', 'r'], 'r', ['name', 'orders'], ['cmp', ['attr', 'r', 'amount'], [['==', ['txn', 'amount']]]]]]]
        base = ['and', [base, ['cmp', ['len', ['var', 'm']], [['>', ['num', 0]]]]]]
    tag_only = draw(st.integers(0, 9)) < 3
    return {'name': draw(st.sampled_from(R.RULE_NAMES)) + f' {i}', 'match': base, 'category': '' if tag_only else draw(st.sampled_from(R.CATEGORIES)),
            'subcategory': draw(st.sampled_from(R.SUBCATS)), 'merchant': None, 'priority': draw(st.sampled_from([None, None, 10, 90])),
            'tags': ['t%d' % i] if tag_only or draw(st.booleans()) else [], 'lets': lets, 'fields': []}


@st.composite
def da_rule_file(draw):
    n = draw(st.integers(1, 6))
    # (optionally preceded by a variable that needs a date / a custom column: asking about a bare description cannot evaluate THAT one - the others are unaffected)
    return {'vars': draw(st.lists(st.sampled_from([['recent', ['cmp', ['name', 'date'], [['>=', ['str', '2020-01-01']]]]], ['has_code', ['cmp', ['field', 'code'], [['==', ['str', 'x']]]]]]), max_size=1)) +
                    draw(st.lists(st.sampled_from([['is_large', ['cmp', ['name', 'amount'], [['>', ['num', 100]]]]],
                                                   ['threshold_ok', ['cmp', ['name', 'amount'], [['<=', ['num', 50]]]]]]), max_size=2, unique_by=lambda v: v[0])),
            'transforms': draw(st.lists(st.sampled_from([r for r in [
                ['description', ['call', 'regex_replace', [['fieldb', 'description'], ['str', r'^APLPAY\s+'], ['str', '']]]],
                ['description', ['call', 'regex_replace', [['fieldb', 'description'], ['str', r'^(APLPAY|SQ \*|TST\*)\s*'], ['str', '']]]],
                ['description', ['call', 'strip_prefix', [['fieldb', 'description'], ['str', 'APLPAY ']]]],
                ['description', ['call', 'strip_prefix', [['fieldb', 'description'], ['str', 'SQ *']]]],
                ['description', ['call', 'uppercase', [['fieldb', 'description']]]]]]), max_size=1)),
            'rules': [draw(da_rule(i)) for i in range(n)] + draw(st.lists(st.sampled_from([
                {'name': 'Prefixed', 'match': ['match', 'startswith', None, p_], 'category': 'Shopping', 'subcategory': 'Marketplace', 'merchant': None, 'priority': None, 'tags': [],
                 'lets': [], 'fields': []} for p_ in ('SQ', 'APLPAY', 'TST')]), max_size=1))}


@st.composite
def case(draw):
    b = draw(B.budget(min_sources=1, max_sources=3, allow_broken=False, rules_kinds=('rules', 'rules', 'rules', 'csv')))
    if b['rules_kind'] == 'rules':
        rf = draw(da_rule_file())
        words = sorted({w for s_ in b['sources'] for r in s_['rows'] for w in r['desc'].upper().split() if w.isalnum() and len(w) > 2}) or ['NETFLIX']
        extra = [{'name': f'Known {w.title()}', 'match': ['match', 'contains', None, w], 'category': 'Shopping', 'subcategory': 'Online', 'merchant': None, 'priority': None,
                  'tags': [], 'lets': [], 'fields': []} for w in draw(st.lists(st.sampled_from(words), min_size=1, max_size=2, unique=True))]
        front = []
        if len(words) >= 2 and draw(st.booleans()):
            # two merchants whose names differ only in letter case ([Known Uber] / [KNOWN UBER]) are different merchants
            w0 = extra[0]['match'][3]
            w2 = draw(st.sampled_from([w for w in words if w != w0]))
            front = [{'name': extra[0]['name'].upper(), 'match': ['and', [['match', 'contains', None, w2], ['not', ['match', 'contains', None, w0]]]], 'category': 'Bills & Utilities',
                      'subcategory': 'Upper', 'merchant': None, 'priority': 99, 'tags': [], 'lets': [], 'fields': []}]
        used = {e['match'][3] for e in extra}
        free = [w for w in words if w not in used]
        if free and draw(st.integers(0, 2)) == 0:
            # a rule that also tests WHICH source the row came from: explain and discover must classify under the source's configured name, as `up` does
            nm = draw(st.sampled_from(sorted({s_['layout']['source'] for s_ in b['sources']})))
            extra = extra + [{'name': 'Card Only', 'match': ['and', [['match', 'contains', None, draw(st.sampled_from(free))], ['cmp', ['name', 'source'], [['==', ['str', nm]]]]]],
                              'category': 'Shopping', 'subcategory': 'Card Only', 'merchant': None, 'priority': None, 'tags': [], 'lets': [], 'fields': []}]
        b = dict(b, rf=dict(rf, rules=front + rf['rules'] + extra))
    if b['rules_kind'] == 'csv':
        # sub-check (b) can only state description and amount: keep amount modifiers only
        b = dict(b, csv=[dict(r, mods=[m for m in r['mods'] if m['k'] == 'amount']) for r in b['csv']])
    if b['rule_mode'] == 'bogus':
        b = dict(b, rule_mode=None)
    probes = []
    for _ in range(draw(st.integers(1, 3))):
        words = draw(st.lists(lang.word, min_size=1, max_size=3))
        pre = draw(st.sampled_from(['', '', 'APLPAY ', 'SQ *', 'APLPAY SQ *', 'APLPAY APLPAY ', 'SQ *SQ *', 'TST*APLPAY ']))
        sep = draw(st.sampled_from([' ', ' ', '  ', '   ']))
        probes.append({'desc': pre + sep.join(words) + sep + draw(st.sampled_from(UNIQ)),
                       'amount': draw(st.one_of(st.sampled_from([x + d for x in (50, 100, 200, 500) for d in (-0.01, 0, 0.01)]), st.integers(100, 99999).map(lambda c: c / 100.0),
                                                 # refunds / credits: the sign is part of the amount the rules see
                                                 st.sampled_from([-0.01, -5.0, -50.0, -99.99, -100.0, -500.01])))})
    # a rule that is sensitive to the exact spacing of a probe description (column-padded statements)
    spaced = [p for p in probes if '  ' in p['desc']]
    if spaced and b['rules_kind'] == 'rules' and draw(st.booleans()):
        d = spaced[0]['desc']
        i = d.index('  ')
        frag = d[max(0, i - 3):i + 5]
        kind = draw(st.integers(0, 2))
        m = ['match', 'contains', None, frag] if kind == 0 else (['match', 'regex', None, r'\S\s{2,}\S'] if kind == 1 else ['not', ['match', 'regex', None, r'\s{2,}']])
        rule = {'name': 'Spacing Rule', 'match': m, 'category': 'Bills & Utilities', 'subcategory': 'Padded', 'merchant': None, 'priority': 95, 'tags': [], 'lets': [], 'fields': []}
        rf = b['rf']
        b = dict(b, rf=dict(rf, rules=[rule] + rf['rules']))
    # a rule decided by a SUPPLEMENTAL source (an order of exactly this amount exists), and a probe it decides
    supp = b.get('supplemental') or {}
    orders = [r for r in supp.get('orders', []) if any(str(v).strip() for v in r.values()) and r['amount'] > 0]
    if orders and b['rules_kind'] == 'rules' and draw(st.booleans()):
        amt = round(float(orders[0]['amount']), 2)
        if abs(amt - orders[0]['amount']) < 1e-12:
            rule = {'name': 'Order On File', 'match': ['anygen', ['cmp', ['attr', 'o', 'amount'], [['==', ['name', 'amount']]]], 'o', ['name', 'orders'], None], 'category': 'Shopping',
                    'subcategory': 'Order Matched', 'merchant': None, 'priority': 97, 'tags': ['order'], 'lets': [], 'fields': []}
            rf = b['rf']
            b = dict(b, rf=dict(rf, rules=[rule] + rf['rules']))
            probes = probes + [{'desc': 'ORDER LOOKUP ' + draw(st.sampled_from(UNIQ)), 'amount': amt}]
    if draw(st.booleans()):
        # one unmatched description spelled in two letter cases on ALTERNATING rows (plus an ordinary repeat): each spelling is its own description
        lay = {'cols': ['date', 'description', 'amount'], 'template': None, 'datefmt': '%Y-%m-%d', 'sign': '', 'dialect': 'comma', 'header': True, 'decimal': '.', 'spell': 0,
               'source': 'Repeats'}
        descs = draw(st.sampled_from([['Zqx Corner Cafe', 'ZQX CORNER CAFE', 'Zqx Corner Cafe'], ['ZQX CORNER CAFE', 'zqx corner cafe', 'ZQX CORNER CAFE', 'zqx corner cafe'],
                                      ['Zqx Corner Cafe', 'Zqx Corner Cafe', 'ZQX OTHER', 'zqx corner cafe', 'Zqx Corner Cafe'],
                                      # a recurring charge no rule covers: the same description five times
                                      ['ZQX MONTHLY FEE'] * 5, ['ZQX MONTHLY FEE', 'Zqx Corner Cafe', 'ZQX MONTHLY FEE', 'ZQX MONTHLY FEE', 'ZQX MONTHLY FEE']]))
        rows = [{'kind': 'good', 'date': f'2024-04-1{i}', 'unpadded': False, 'cents': 450 + 125 * i, 'style': PLAIN_STYLE, 'desc': d, 'customs': {}, 'loc': '', 'skip': ''}
                for i, d in enumerate(descs)]
        if b['rules_kind'] == 'rules' and draw(st.booleans()):
            # a rule named exactly like the name tally derives for an unmatched description, applying to SOME of the charges with that description only:
            # what is Unknown is decided per transaction, not per merchant name
            order = draw(st.sampled_from([[450, 4500], [4500, 450], [450, 4500, 600]]))
            rows = rows + [{'kind': 'good', 'date': f'2024-05-1{i}', 'unpadded': False, 'cents': c, 'style': PLAIN_STYLE, 'desc': 'ZQXCAFE', 'customs': {}, 'loc': '', 'skip': ''}
                           for i, c in enumerate(order)]
            rf = b['rf']
            b = dict(b, rf=dict(rf, rules=[{'name': 'Zqxcafe', 'match': ['and', [['match', 'contains', None, 'ZQXCAFE'], ['cmp', ['name', 'amount'], [['<', ['num', 30]]]]]], 'category': 'Food',
                                            'subcategory': 'Coffee', 'merchant': None, 'priority': 98, 'tags': [], 'lets': [], 'fields': []}] + rf['rules']))
        b = dict(b, sources=list(b['sources']) + [{'layout': lay, 'rows': rows, 'state': 'ok'}])
    return {'b': b, 'probes': probes}


PLAIN_STYLE = {'thousands': False, 'symbol': '', 'neg': '-', 'plus': False, 'pad': '', 'decimals': 2}


def with_probe_source(b, rows):
    """The budget plus a plain extra source holding an anchor row and the probe rows (description, amount)."""
    lay = {'cols': ['date', 'description', 'amount'], 'template': None, 'datefmt': '%Y-%m-%d', 'sign': '', 'dialect': 'comma', 'header': True, 'decimal': '.', 'spell': 0,
           'source': 'Probe'}
    mk = lambda d, a, i: {'kind': 'good', 'date': f'2024-03-1{i % 9}', 'unpadded': False, 'cents': int(round(a * 100)), 'style': PLAIN_STYLE, 'desc': d, 'customs': {}, 'loc': '',
                          'skip': ''}
    src = {'layout': lay, 'rows': [mk('PROBE SOURCE ANCHOR ROW', 1.0, 0)] + [mk(d, a, i + 1) for i, (d, a) in enumerate(rows)], 'state': 'ok'}
    return dict(b, sources=list(b['sources']) + [src])


def up_view(bd, c):
    rj = cli.run(['up', '-q', '--format', 'json', '-v', bd.config], cwd=bd.root)
    rh = cli.run(['up', '-q', bd.config], cwd=bd.root)
    if rj.code != 0 or rh.code != 0:
        raise Violation(f'`tally up` failed (exit {rj.code}/{rh.code}):\n{(rj.err + rh.err)[-1000:]}', c, 'up-failed')
    jd = json.loads(rj.out)
    data = decode_html(open(bd.path('output/spending_summary.html'), encoding='utf-8').read(), c)
    txns = []
    for cat in data['categoryView'].values():
        for sub in cat['subcategories'].values():
            for m in sub['merchants'].values():
                for t in m['transactions']:
                    txns.append({'merchant': m['displayName'], 'category': m['category'], 'subcategory': m['subcategory'], 'description': t['description'], 'amount': t['amount'],
                                 'tags': sorted(t['tags'])})
    return jd, txns


def text_agrees(argv, bd, category, subcategory, unknown_desc, c, ctx, what):
    """The text and markdown renderings of the same explain call report the same classification (and do not crash)."""
    for fmt in ([], ['--format', 'markdown']):
        r = cli.run(['explain'] + fmt + argv, cwd=bd.root)
        out = r.out + r.err
        if obs.crashed(out) or r.code != 0:
            raise Violation(f'`tally explain {" ".join(fmt + argv[:-1])}` failed (exit {r.code}) where the JSON format succeeds:\n{out[-900:]}{ctx}', c, 'explain-text-crash')
        # the layout of the text renderings is not specified: the reported category and subcategory only have to appear in them
        if unknown_desc:
            ok = 'nknown' in out
        else:
            ok = (not category or category in out) and (not subcategory or subcategory in out)
        if not ok:
            raise Violation(f'{what}: the {"markdown" if fmt else "text"} output does not report {category!r} > {subcategory!r} (unknown={unknown_desc}):\n{out[:900]}{ctx}', c,
                            'explain-text')


def check(c, stats: Stats):
    b = c['b']
    classes = set()
    with cli.Budget() as bd:
        b0 = with_probe_source(b, [])
        mat = B.materialise(b0, bd)
        jd, _ = up_view(bd, c)
        # per-transaction facts come from the composition `up` is verified to equal (C11); the report itself only carries merchant-level labels
        txns = [{'merchant': t['merchant'], 'category': t['category'], 'subcategory': t['subcategory'], 'description': t['raw_description'], 'amount': t['amount'],
                 'pattern': (t.get('match_info') or {}).get('pattern')} for t in B.compose(b0, mat)['txns']]
        ctx = f"\n--- rules ({b['rules_kind']}, mode {b['rule_mode']})\n" + (R.render_file(b['rf']) if b['rules_kind'] == 'rules' else bd.read('config/merchant_categories.csv'))
        merchants = {m['name']: m for m in jd['merchants']}
        # ---------- (a) explain <merchant>
        # merchants whose names differ only in letter case are explained first (they are different merchants)
        low = {}
        for n in merchants:
            low.setdefault(n.lower(), []).append(n)
        twins = [n for v in low.values() if len(v) > 1 for n in v]
        if twins:
            classes.add('case_variant_merchants')
        order = twins + [n for n in merchants if n not in twins]
        for name, um in [(n, merchants[n]) for n in order[:8]]:
            if os.path.isdir(name) or name.startswith('-') or not name.strip():
                continue
            r = cli.run(['explain', '--format', 'json', '-v', name, bd.config], cwd=bd.root)
            try:
                em = json.loads(r.out)
            except ValueError:
                raise Violation(f'`tally explain --format json {name!r}` printed no JSON for a merchant that `up` reports (exit {r.code}):\n{(r.out + r.err)[:600]}{ctx}', c,
                                'explain-merchant-missing')
            for k in ('name', 'category', 'subcategory', 'tags', 'total', 'count', 'pattern', 'raw_descriptions'):
                if em.get(k) != um.get(k):
                    raise Violation(f'explain says {k} = {em.get(k)!r} for merchant {name!r}, `up` says {um.get(k)!r}{ctx}', c, 'explain-merchant:' + k)
            if 'explain_text' not in classes and '\n' not in name:
                text_agrees([name, bd.config], bd, um.get('category'), um.get('subcategory'), False, c, ctx, f'explain {name!r}')
                classes.add('explain_text')
            classes.add('explain_merchant')
        # ---------- (c) discover lists exactly the Unknown transactions
        unknown = [t for t in txns if t['category'] == 'Unknown']
        r = cli.run(['discover', '--format', 'json', '--limit', '0', bd.config], cwd=bd.root)
        if unknown:
            try:
                items = json.loads(r.out)
            except ValueError:
                raise Violation(f'`tally discover --format json` printed no JSON although `up` leaves {len(unknown)} transactions Unknown (exit {r.code}):\n{(r.out + r.err)[:600]}', c,
                                'discover-json')
            exp = {}
            for t in unknown:
                e = exp.setdefault(t['description'], [0, 0.0])
                e[0] += 1
                e[1] += abs(t['amount'])
            got = {it['raw_description']: [it['count'], it['total_spend']] for it in items}
            if set(got) != set(exp) or any(got[k][0] != exp[k][0] or abs(got[k][1] - exp[k][1]) > 0.00501 for k in exp):
                raise Violation(f'discover lists {got}\nbut the transactions `up` leaves Unknown are {exp}{ctx}', c, 'discover-listing')
            rt = cli.run(['discover', '--limit', '0', bd.config], cwd=bd.root)
            mt = re.search(r'Total unknown: (\d+) transactions', rt.out)
            if obs.crashed(rt.out + rt.err) or rt.code != 0:
                raise Violation(f'`tally discover` (text) failed where the JSON format succeeds (exit {rt.code}):\n{(rt.out + rt.err)[-800:]}{ctx}', c, 'discover-text-crash')
            if mt and int(mt.group(1)) != len(unknown):
                raise Violation(f'`tally discover` (text) counts {mt.group(1)} unknown transactions, `up` leaves {len(unknown)} Unknown{ctx}', c, 'discover-text')
            counts = sorted(int(x) for x in re.findall(r'^\s+Count: (\d+) \|', rt.out, re.M))
            if mt and counts and counts != sorted(v[0] for v in exp.values()):
                raise Violation(f'`tally discover` (text) lists per-description counts {counts}, expected {sorted(v[0] for v in exp.values())}{ctx}', c, 'discover-text')
            if mt:
                classes.add('discover_text')
            classes.add('discover_listing')
        elif 'No unknown transactions' not in r.out:
            try:
                if json.loads(r.out):
                    raise Violation(f'discover lists {r.out[:300]} although `up` leaves nothing Unknown{ctx}', c, 'discover-listing')
            except ValueError:
                pass
        # ---------- (b) explain <description> --amount A  vs  up on the same row
        if b['rules_kind'] in ('rules', 'csv'):
            probes = [(p['desc'], round(p['amount'], 2)) for p in c['probes']]
            with cli.Budget() as bd2:
                b1 = with_probe_source(b, probes)
                mat1 = B.materialise(b1, bd2)
                txns2 = [{'merchant': t['merchant'], 'category': t['category'], 'subcategory': t['subcategory'], 'description': t['raw_description'], 'amount': t['amount'],
                          'pattern': (t.get('match_info') or {}).get('pattern')} for t in B.compose(b1, mat1)['txns']]
            for d, a in probes:
                mine = [t for t in txns2 if t['description'] == d.strip() and abs(t['amount'] - a) < 1e-9]
                if len(mine) != 1:
                    continue
                up_t = mine[0]
                r = cli.run(['explain', '--amount', repr(a), '--format', 'json', d, bd.config], cwd=bd.root)
                try:
                    tr = json.loads(r.out)
                except ValueError:
                    tr = None
                if up_t['category'] == 'Unknown':
                    classes.add('explain_description_unknown')
                    if tr is not None and (not tr.get('is_unknown') or tr.get('category') != 'Unknown' or tr.get('merchant') != up_t['merchant']):
                        raise Violation(f'explain {d!r} --amount {a}: {tr}\nbut `up` leaves such a transaction Unknown under merchant {up_t["merchant"]!r}{ctx}', c, 'explain-description')
                    continue
                if tr is None or 'category' not in tr:
                    raise Violation(f'explain {d!r} --amount {a} reports no classification (exit {r.code}): {(r.out + r.err)[:400]}\nbut `up` assigns {up_t}{ctx}', c, 'explain-description')
                got = (tr.get('merchant'), tr.get('category'), tr.get('subcategory'))
                want = (up_t['merchant'], up_t['category'], up_t['subcategory'])
                if got != want or tr.get('is_unknown'):
                    raise Violation(f'explain {d!r} --amount {a} says {got} (unknown={tr.get("is_unknown")}), `up` assigns {want} to that transaction{ctx}', c, 'explain-description')
                if up_t['pattern'] and (tr.get('matched_rule') or {}).get('pattern') != up_t['pattern']:
                    raise Violation(f'explain {d!r} --amount {a} names rule {(tr.get("matched_rule") or {}).get("pattern")!r}, `up` matched {up_t["pattern"]!r}{ctx}', c,
                                    'explain-rule')
                if 'explain_description_text' not in classes:
                    text_agrees(['--amount', repr(a), d, bd.config], bd, up_t['category'], up_t['subcategory'], False, c, ctx, f'explain {d!r} --amount {a}')
                    classes.add('explain_description_text')
                classes.add('explain_description_matched')
        # ---------- classes
        if b['rules_kind'] == 'csv':
            classes.add('csv_rules')
        else:
            rf = b['rf']
            if any(not r['category'] for r in rf['rules'][:-1]):
                classes.add('tagonly_predecessor')
            if rf['vars'] or any(r['lets'] for r in rf['rules']):
                classes.add('variable_or_let')
            if rf['transforms']:
                classes.add('transform')
            if any('anygen' in lang.kinds(r['match']) or any(n == 'm' for n, _ in r['lets']) for r in rf['rules']) and b['supplemental']:
                classes.add('supplemental_query')
        if b['rule_mode'] == 'most_specific':
            classes.add('most_specific')
        has_unknown = any(t['category'] == 'Unknown' for t in txns)
        has_cat = any(t['category'] != 'Unknown' for t in txns)
        nontrivial = has_unknown and has_cat and bool(classes & {'tagonly_predecessor', 'variable_or_let', 'most_specific', 'transform', 'supplemental_query'})
        stats.case(jhash(c), nontrivial, classes, sample={'probes': c['probes'][:2], 'rules_kind': b['rules_kind']} if len(stats.samples) < 3 else None)


def replay(c):
    try:
        check(c, Stats())
    finally:
        obs.cleanup()


def shards(tier):
    n = 80 if tier == 'quick' else 500
    return [('random', n)] * 16


def run_shard(kind, n, seed, tier):
    s = Stats()
    try:
        campaign(case(), check, n, seed, s, tier)
    finally:
        obs.cleanup()
    return s
