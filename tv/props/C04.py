"""C04 - Expressions mean what the reference says: logic, comparisons, match functions."""
from __future__ import annotations

import itertools

from hypothesis import strategies as st

from tv import lang
from tv.harness import Stats, Violation, campaign, jhash

ID = 'C04'
LEVEL = 'exploration'
RULE = ('Typed expression IR (Bool/Num/Str roots; depth<=4; every documented match/extraction/transform function, amount/date/'
        'field/source/txn conditions, chains, and/or/not, ternary, arithmetic incl. /0 and %0, comprehensions/any/all/sum/len/'
        'next over supplemental rows, variables) rendered to tally syntax and evaluated by evaluate_transaction, compared with '
        'an independent reference interpreter; plus metamorphic laws on the real evaluator (double negation, De Morgan, operand '
        'swap, short-circuit with an erroring operand, chain = conjunction, ASCII case flips of text/patterns/names, anyof = '
        'or of contains, contains => fuzzy (plus a fuzzy shard: monotone in the threshold, default = 0.80, threshold 1.0 = contains, case-insensitive, one-typo tolerance as documented, all four call forms), warm vs cold cache, matches_transaction / one-rule engine agreement) and an '
        'exhaustive enumeration of small Boolean combinations and numeric chains over boundary transactions. Non-trivial = '
        '>=2 operators and (value discriminates between the transactions it was evaluated on, or a short-circuit guards an '
        'erroring operand, or a comprehension ranges over >=2 rows); distinct by hash of the rendered expression.')
ASSUMPTIONS = ['regular-expression semantics are Python re (the documented pattern language); fuzzy() is checked by laws only',
               'month/year/day/weekday of a missing date is undocumented: such evaluations are counted, not asserted',
               'case-insensitivity is asserted for ASCII letters only (the statement says ASCII text)']
REQUIRED_CLASSES = ['law_function_name_case', 'date_primitives_exhaustive', 'short_circuit_guard', 'chain', 'comprehension', 'div_zero', 'law_case_flip', 'fuzzy_delete', 'fuzzy_substitute', 'fuzzy_text_arg']


def tally_eval(src, txn, variables=None, rows=None):
    from tally import expr_parser as ep
    try:
        return ('val', ep.evaluate_transaction(src, dict(txn, field=None if txn.get('field') is None else dict(txn['field'])),
                                               dict(variables) if variables is not None else None, rows))
    except ep.ExpressionError as e:
        return ('err', str(e)[:80])
    except RecursionError:
        raise
    except Exception as e:  # anything else escaping the evaluator is not an expression error
        return ('exc', type(e).__name__, str(e)[:80])


def ref_eval(e, txn, variables, rows):
    try:
        return ('val', lang.ref_eval(e, lang.Env(txn, variables, rows)))
    except lang.RefErr as ex:
        return ('err', str(ex)[:80])
    except lang.Unspecified:
        return ('unspec',)


def same(a, b):
    if a[0] != b[0]:
        return False
    if a[0] != 'val':
        return True
    x, y = a[1], b[1]
    if isinstance(x, bool) != isinstance(y, bool):
        return False
    if isinstance(x, float) and isinstance(y, float) and x != x and y != y:
        return True
    return x == y and (type(x) is type(y) or (isinstance(x, (int, float)) and isinstance(y, (int, float))))


def as_bool(r):
    return ('val', bool(r[1])) if r[0] == 'val' else (r[0],)


ERR_OPERANDS = [['cmp', ['field', 'nosuch'], [['==', ['str', 'x']]]],
                ['cmp', ['name', 'undefined_name'], [['>', ['num', 1]]]],
                ['cmp', ['sub', ['listcomp', ['name', 'r'], 'r', ['name', 'orders'], ['lit', False]], ['num', 0]], [['==', ['num', 1]]]]]

root_expr = st.one_of(lang.bool_expr(3), lang.bool_expr(3), lang.bool_expr(4), lang.num_expr(3), lang.str_expr(3))

case_st = st.fixed_dictionaries({
    'expr': root_expr,
    'txns': st.lists(lang.txn_case, min_size=2, max_size=4),
    'rows': lang.rows_case,
    'vars': lang.vars_case,
    'flip': st.integers(1, 65535),
    'b2': lang.bool_expr(2),
    'err': st.integers(0, len(ERR_OPERANDS) - 1),
})


def respell_calls(src, mask):
    """Upper-case / capitalise the names of called functions (NAME immediately followed by '(' and not a method), leaving literals untouched."""
    import io
    import keyword
    import tokenize
    try:
        toks = list(tokenize.generate_tokens(io.StringIO(src).readline))
    except (tokenize.TokenError, IndentationError, SyntaxError):
        return src
    out = list(src)
    k = 0
    for i, t in enumerate(toks):
        if t.type == tokenize.NAME and not keyword.iskeyword(t.string.lower()) and t.string.lower() not in ('true', 'false', 'none') and i + 1 < len(toks) and \
                toks[i + 1].string == '(' and (i == 0 or toks[i - 1].string != '.') and t.start[0] == 1:
            k += 1
            new = t.string.upper() if (mask >> (k % 8)) & 1 else t.string.capitalize()
            out[t.start[1]:t.end[1]] = list(new)
    return ''.join(out)


def check(case, stats: Stats):
    e = case['expr']
    src = lang.render(e)
    rows = lang.mk_rows(case['rows'])
    variables = case['vars']
    kinds = lang.kinds(e)
    classes = set()
    vals = []
    unspec = 0
    for tc in case['txns']:
        txn = lang.mk_txn(tc)
        exp = ref_eval(e, txn, variables, rows)
        got = tally_eval(src, txn, variables, rows)
        if exp[0] == 'unspec':
            unspec += 1
            continue
        vals.append(repr(got))
        if not same(exp, got):
            raise Violation(f'expression {src!r}\n on {tc} vars={variables}\n reference says {exp!r}, tally says {got!r}',
                            {'kind': 'ref', 'expr': e, 'txn': tc, 'rows': case['rows'], 'vars': variables}, 'ref-mismatch')
    if unspec:
        classes.add('unspecified_skipped')
    # the same expression with the letter case of its string literals changed is a DIFFERENT expression wherever a literal
    # is used case-sensitively (split delimiters, replace arguments, returned text): it must get its own meaning
    e_alt = lang.flip_str_literals(e, case['flip'])
    if e_alt != e:
        classes.add('case_variant_pair')
        txn0 = lang.mk_txn(case['txns'][0])
        exp = ref_eval(e_alt, txn0, variables, rows)
        got = tally_eval(lang.render(e_alt), txn0, variables, rows)
        if exp[0] != 'unspec' and not same(exp, got):
            raise Violation(f'after evaluating {src!r}, its case-variant {lang.render(e_alt)!r}\n on {case["txns"][0]} gives {got!r}, reference {exp!r}',
                            {'kind': 'variant', 'expr': e, 'flip': case['flip'], 'txn': case['txns'][0], 'rows': case['rows'], 'vars': variables}, 'case-variant')
    # "changing the letter case of ... function and variable names never changes the result": every called function (built-ins handled by the
    # evaluator itself included: any / sum / len / next / min / max / exists) is re-spelled in the source text; string literals are left alone
    src_up = respell_calls(src, case['flip'])
    if src_up != src:
        classes.add('law_function_name_case')
        txn0 = lang.mk_txn(case['txns'][0])
        a, b_ = tally_eval(src, txn0, variables, rows), tally_eval(src_up, txn0, variables, rows)
        if not same(a, b_) and not (a[0] == b_[0] == 'err'):
            raise Violation(f'letter case of function names changed the result on {case["txns"][0]}:\n  {src!r} -> {a!r}\n  {src_up!r} -> {b_!r}',
                            {'kind': 'fncase', 'src': src, 'src2': src_up, 'txn': case['txns'][0], 'rows': case['rows'], 'vars': variables}, 'law-function-case')
    # ---- laws on the real evaluator (Boolean roots) ----
    tc = case['txns'][0]
    txn = lang.mk_txn(tc)
    law_case = lambda name, extra=None: dict({'kind': 'law', 'law': name, 'expr': e, 'txn': tc, 'rows': case['rows'],
                                              'vars': variables, 'flip': case['flip'], 'b2': case['b2'], 'err': case['err']},
                                             **(extra or {}))
    run_laws(e, case['b2'], ERR_OPERANDS[case['err']], txn, tc, variables, rows, case['flip'], classes, law_case)

    if 'cmp' in kinds and any(n[0] == 'cmp' and len(n[2]) > 1 for n in lang.walk(e)):
        classes.add('chain')
    if kinds & {'listcomp', 'sumgen', 'anygen', 'allgen', 'nextgen'}:
        classes.add('comprehension')
    if any(n[0] == 'bin' and n[1] in '/%' and n[3] in (['num', 0], ['num', 0.0], ['bin', '-', ['num', 5], ['num', 5]]) for n in lang.walk(e)):
        classes.add('div_zero')
    if any(tc_['date'] is None for tc_ in case['txns']):
        classes.add('missing_date')
    compr2 = bool(kinds & {'listcomp', 'sumgen', 'anygen', 'allgen', 'nextgen'}) and max(len(v) for v in case['rows'].values()) >= 2
    nontrivial = lang.count_ops(e) >= 2 and (len(set(vals)) >= 2 or compr2 or 'short_circuit_guard' in classes)
    stats.case(jhash(src), nontrivial, classes, sample={'expr': src, 'txn': case['txns'][0], 'value': vals[:1]})


def run_laws(e, b2, err_operand, txn, tc, variables, rows, flip, classes, law_case):
    T = lambda x: tally_eval(lang.render(x), txn, variables, rows)

    def eq(name, lhs, rhs, boolean=True, extra=None):
        a, b = T(lhs), T(rhs)
        if boolean:
            a, b = as_bool(a), as_bool(b)
        if not same(a, b) and not (a[0] == b[0] == 'err'):
            raise Violation(f'law {name} broken on {tc} vars={variables}:\n  {lang.render(lhs)!r} -> {a!r}\n  {lang.render(rhs)!r} -> {b!r}',
                            law_case(name, extra), 'law-' + name)

    is_bool_root = e[0] in ('and', 'or', 'not', 'cmp', 'match', 'anyof', 'exists', 'lit', 'anygen', 'allgen')
    if is_bool_root:
        eq('double-negation', ['not', ['not', e]], e)
        eq('de-morgan-and', ['not', ['and', [e, b2]]], ['or', [['not', e], ['not', b2]]])
        eq('de-morgan-or', ['not', ['or', [e, b2]]], ['and', [['not', e], ['not', b2]]])
        ra, rb = T(e), T(b2)
        if ra[0] == 'val' and rb[0] == 'val':
            eq('swap-and', ['and', [e, b2]], ['and', [b2, e]])
            eq('swap-or', ['or', [e, b2]], ['or', [b2, e]])
        # short-circuit: an erroring operand behind a deciding operand is never evaluated
        re_ = T(err_operand)
        if re_[0] == 'err' and ra[0] == 'val':
            classes.add('short_circuit_guard')
            if ra[1]:
                g = T(['or', [e, err_operand]])
                if g != ('val', True):
                    raise Violation(f'short-circuit: true or <erroring> gave {g!r} for {lang.render(e)!r} on {tc}', law_case('sc-or'), 'law-short-circuit')
                m = T(['or', [err_operand, e]])
                if m[0] != 'err':
                    raise Violation(f'<erroring> or true gave {m!r}; left-to-right evaluation must fail first', law_case('sc-or-mirror'), 'law-short-circuit')
            else:
                g = T(['and', [e, err_operand]])
                if g != ('val', False):
                    raise Violation(f'short-circuit: false and <erroring> gave {g!r} for {lang.render(e)!r} on {tc}', law_case('sc-and'), 'law-short-circuit')
                m = T(['and', [err_operand, e]])
                if m[0] != 'err':
                    raise Violation(f'<erroring> and false gave {m!r}; left-to-right evaluation must fail first', law_case('sc-and-mirror'), 'law-short-circuit')
        # API agreement: matches_transaction and a one-rule engine
        from tally import expr_parser as ep
        from tally.merchant_engine import parse_merchants
        src = lang.render(e)
        direct = T(e)
        try:
            mt = ('val', ep.matches_transaction(src, dict(txn), dict(variables), rows))
        except ep.ExpressionError:
            mt = ('err',)
        except Exception as ex:
            mt = ('exc', type(ex).__name__)
        if as_bool(direct)[:2] != mt[:2] and not (direct[0] == 'err' == mt[0]):
            raise Violation(f'matches_transaction {mt!r} vs evaluate_transaction {direct!r} for {src!r}', law_case('api'), 'law-api')
        try:
            eng = parse_merchants('\n'.join(f'{k} = {lang.num_lit(v) if not isinstance(v, str) else lang.lit(v)}' for k, v in variables.items())
                                  + f'\n[R]\nmatch: {src}\ncategory: C\n')
            m = eng.match(dict(txn), data_sources=rows)
            em = ('val', bool(m.matched))
        except Exception as ex:
            em = ('exc', type(ex).__name__, str(ex)[:80])
        want = as_bool(direct) if direct[0] == 'val' else ('val', False)
        if em != want:
            raise Violation(f'one-rule engine says {em!r}, evaluate_transaction says {direct!r} for {src!r} on {tc}', law_case('engine'), 'law-engine')
    # chain = conjunction (any chained comparison inside e)
    for n in lang.walk(e):
        if n[0] == 'cmp' and len(n[2]) > 1:
            ops = [n[1]] + [x for _, x in n[2]]
            conj = ['and', [['cmp', ops[i], [[n[2][i][0], ops[i + 1]]]] for i in range(len(n[2]))]]
            eq('chain-conjunction', n, conj)
            break
    # anyof = or of contains ; contains => fuzzy
    for n in lang.walk(e):
        if n[0] == 'anyof':
            eq('anyof-or', n, ['or', [['match', 'contains', None, p] for p in n[1]]] if len(n[1]) > 1 else ['match', 'contains', None, n[1][0]])
            break
    for n in lang.walk(e):
        if n[0] == 'match' and n[1].lower() == 'contains':
            c = T(n)
            if c == ('val', True):
                f = T(['fuzzy', n[2], n[3], None])
                if f != ('val', True):
                    raise Violation(f'contains({n[3]!r}) is true but fuzzy({n[3]!r}) is {f!r} on {tc}', law_case('fuzzy'), 'law-fuzzy')
            break
    # ASCII case flips: text of the transaction, patterns, and names - in the case-insensitive fragment
    if is_bool_root and ci_fragment(e):
        classes.add('law_case_flip')
        base = as_bool(T(e))
        e2 = flip_literals(e, flip)
        r2 = as_bool(tally_eval(lang.render(e2), txn, variables, rows))
        if not same(base, r2) and not (base[0] == r2[0] == 'err'):
            raise Violation(f'letter case of patterns/names changed the result on {tc}:\n  {lang.render(e)!r} -> {base!r}\n  {lang.render(e2)!r} -> {r2!r}',
                            law_case('case-pattern'), 'law-case')
        tc3 = dict(tc, description=lang.flip_case(tc['description'], flip),
                   field=None if tc['field'] is None else {k: lang.flip_case(v, flip >> 3) for k, v in tc['field'].items()},
                   source=None if tc['source'] is None else lang.flip_case(tc['source'], flip >> 5))
        v3 = {k: (lang.flip_case(v, flip >> 2) if isinstance(v, str) else v) for k, v in variables.items()}
        r3 = as_bool(tally_eval(lang.render(e), lang.mk_txn(tc3), v3, rows))
        if not same(base, r3) and not (base[0] == r3[0] == 'err'):
            raise Violation(f'letter case of the transaction text changed the result of {lang.render(e)!r}:\n  {tc} -> {base!r}\n  {tc3} -> {r3!r}',
                            law_case('case-text'), 'law-case')
    # warm vs cold cache
    from tally import expr_parser as ep
    src = lang.render(e)
    warm = T(e)
    ep._expression_cache.clear()
    ep._regex_cache.clear()
    cold = T(e)
    if not same(warm, cold) and not (warm[0] == cold[0] == 'err'):
        raise Violation(f'cache changes meaning: warm {warm!r} vs cold {cold!r} for {src!r}', law_case('cache'), 'law-cache')


CI_KINDS = {'and', 'or', 'not', 'cmp', 'match', 'anyof', 'lit', 'name', 'txn', 'field', 'fieldb', 'str', 'num', 'var', 'exists', 'if'}


def ci_fragment(e):
    """Sub-language in which only case-insensitive operations touch text (so case flips must not matter)."""
    for n in lang.walk(e):
        if n[0] not in CI_KINDS:
            return False
        if n[0] == 'match' and n[1].lower() == 'regex':
            return False
        if n[0] == 'cmp':
            ops = [n[1]] + [x for _, x in n[2]]
            # ordering comparisons on text are case-sensitive by Python semantics and not documented otherwise
            if any(op in ('<', '<=', '>', '>=') for op, _ in n[2]) and any(lang_is_text(x) for x in ops):
                return False
            if any(isinstance(x, list) and x[0] == 'str' and lang_is_date(x[1]) for x in ops):
                continue
    return True


def lang_is_text(x):
    return x[0] in ('str', 'field') or (x[0] in ('name', 'txn', 'fieldb') and x[1].lower() in ('description', 'source', 'location')) or \
        (x[0] == 'var' and x[1].lower() == 'label')


def lang_is_date(s):
    return len(s) == 10 and s[4] == '-' and s[7] == '-'


def flip_literals(e, mask):
    if not isinstance(e, list):
        return e
    k = e[0]
    if k == 'str':
        return ['str', lang.flip_case(e[1], mask)]
    if k == 'match':
        return ['match', lang.flip_case(e[1], mask >> 1), flip_literals(e[2], mask) if e[2] is not None else None, lang.flip_case(e[3], mask)]
    if k == 'anyof':
        return ['anyof', [lang.flip_case(p, mask >> 2) for p in e[1]], lang.flip_case('anyof', mask >> 4)]
    if k in ('name', 'var'):
        return [k, lang.flip_case(e[1], mask >> 3)]
    if k == 'txn':
        return ['txn', lang.flip_case(e[1], mask >> 2), lang.flip_case('txn', mask >> 6)]
    if k in ('field', 'fieldb'):
        return [k, lang.flip_case(e[1], mask >> 2), lang.flip_case('field', mask >> 7)]
    if k in ('lit', 'num'):
        return e
    if k == 'cmp':
        return ['cmp', flip_literals(e[1], mask), [[op, flip_literals(x, mask)] for op, x in e[2]]]
    if k in ('and', 'or'):
        return [k, [flip_literals(x, mask) for x in e[1]]]
    if k in ('not', 'exists'):
        return [k, flip_literals(e[1], mask)]
    if k == 'if':
        return ['if', flip_literals(e[1], mask), flip_literals(e[2], mask), flip_literals(e[3], mask)]
    raise ValueError(k)


# ------------------------------------------------------------------------------------------------
# exhaustive part
# ------------------------------------------------------------------------------------------------
ATOMS = [
    ['match', 'contains', None, 'UBER'],
    ['cmp', ['name', 'amount'], [['>', ['num', 100]]]],
    ['cmp', ['name', 'date'], [['>=', ['str', '2024-06-15']]]],
    ['cmp', ['field', 'type'], [['==', ['str', 'wire']]]],
    ['match', 'regex', None, r'UBER\s(?!EATS)'],
    ['cmp', ['name', 'month'], [['==', ['num', 12]]]],
    ['cmp', ['name', 'amount'], [['<=', ['num', 100]]]],
    ['anyof', ['EATS', 'LYFT']],
    ['cmp', ['name', 'source'], [['==', ['str', 'AMEX']]]],
    ['match', 'startswith', None, 'amzn'],
    ['cmp', ['str', 'NETFLIX'], [['in', ['name', 'description']]]],
    ['exists', ['field', 'memo']],
]
BTXNS = []
for _d, _a, _dt, _f, _s in itertools.product(
        ['UBER EATS', 'uber trip', 'AMZN MKTP NETFLIX'], [100.0, 100.01, -5.0, 99.99],
        ['2024-06-15', '2024-12-31'], [None, {'type': 'WIRE', 'memo': ' '}], ['Amex']):
    BTXNS.append({'description': _d, 'amount': _a, 'date': _dt, 'field': _f, 'source': _s, 'location': None})
BTXNS.append({'description': '', 'amount': 0.0, 'date': None, 'field': {'type': 'wire', 'memo': 'x'}, 'source': None, 'location': None})
NUM_OPERANDS = [['name', 'amount'], ['num', 0], ['num', 100], ['name', 'day'], ['num', 15], ['num', 100.01]]
OPS = ['<', '<=', '>', '>=', '==', '!=']


def exhaustive(tier, stats: Stats, part, nparts):
    atoms = ATOMS if tier == 'thorough' else ATOMS[:6]
    shapes = []
    for a in atoms:
        shapes.append(a)
        shapes.append(['not', a])
    for a, b in itertools.product(atoms, repeat=2):
        shapes += [['and', [a, b]], ['or', [a, b]], ['and', [a, ['not', b]]], ['not', ['or', [a, b]]]]
    for a, b, c in itertools.product(atoms, repeat=3):
        shapes += [['or', [['and', [a, b]], c]], ['and', [['or', [a, b]], c]], ['and', [a, b, c]], ['if', a, b, c]]
    chain_ops = OPS if tier == 'thorough' else OPS[:4]
    for x, y, z in itertools.product(NUM_OPERANDS, repeat=3):
        for o1, o2 in itertools.product(chain_ops, repeat=2):
            shapes.append(['cmp', x, [[o1, y], [o2, z]]])
    txns = [lang.mk_txn(t) for t in BTXNS]
    n = 0
    if part == 0:
        # "month/year/day/weekday are those of the date": every day within a week of a year boundary 2019-2031, every month end and leap day 2023-2025
        from datetime import date as _date, timedelta as _td
        days = {_date(y, 1, 1) + _td(days=k) for y in range(2019, 2032) for k in range(-7, 8)}
        days |= {_date(y, m, 1) - _td(days=1) for y in (2023, 2024, 2025) for m in range(1, 13)} | {_date(2024, 2, 29), _date(2000, 2, 29), _date(2100, 3, 1)}
        for d in sorted(days):
            txn = {'description': 'x', 'amount': 1.0, 'date': d, 'field': None, 'source': None, 'location': None}
            want = {'month': d.month, 'year': d.year, 'day': d.day, 'weekday': d.weekday()}
            for prim, w in want.items():
                for src in (prim, 'txn.' + prim, prim.upper()):
                    got = tally_eval(src, txn, {}, {})
                    n += 1
                    if got != ('val', w):
                        raise Violation(f'{src} of {d.isoformat()} ({d:%A}) is {got!r}, expected {w}', {'kind': 'ref', 'expr': ['name', prim], 'txn': dict(txn, date=d.isoformat()), 'rows': {}, 'vars': {}},
                                        'date-primitive')
            got = tally_eval(f'date == "{d.isoformat()}" and date >= "{d.isoformat()}" and date < "{(d + _td(days=1)).isoformat()}" and date > "{(d - _td(days=1)).isoformat()}"', txn, {}, {})
            n += 1
            if got != ('val', True):
                raise Violation(f'date comparisons against ISO strings around {d.isoformat()} gave {got!r}', {'kind': 'ref', 'expr': ['cmp', ['name', 'date'], [['==', ['str', d.isoformat()]]]],
                                                                                                             'txn': dict(txn, date=d.isoformat()), 'rows': {}, 'vars': {}}, 'date-primitive')
        stats.case(jhash('date-primitives'), True, ['date_primitives_exhaustive'])
        stats.exhaustive[f'month/year/day/weekday and ISO-string comparisons on {len(days)} dates around year boundaries, month ends and leap days'] = True
    for i, e in enumerate(shapes):
        if i % nparts != part:
            continue
        src = lang.render(e)
        vals = set()
        for tc, txn in zip(BTXNS, txns):
            exp = ref_eval(e, txn, {}, {})
            got = tally_eval(src, txn, {}, {})
            if exp[0] == 'unspec':
                continue
            n += 1
            vals.add(repr(got))
            if not same(exp, got):
                raise Violation(f'expression {src!r} on {tc}: reference {exp!r}, tally {got!r}',
                                {'kind': 'ref', 'expr': e, 'txn': tc, 'rows': {}, 'vars': {}}, 'ref-mismatch')
        stats.case(jhash(src), len(vals) >= 2, ['exhaustive_small'], sample={'expr': src} if i % 5003 == 0 else None)
    stats.evaluations += n - 0
    stats.exhaustive[f'boolean combinations depth<=2 over {len(atoms)} atoms + numeric chains of length 3, x {len(BTXNS)} boundary transactions'] = True


def replay(case):
    if case.get('kind') == 'fncase':
        txn0 = lang.mk_txn(case['txn'])
        rows = lang.mk_rows(case['rows']) if case.get('rows') else {}
        a, b_ = tally_eval(case['src'], txn0, case['vars'], rows), tally_eval(case['src2'], txn0, case['vars'], rows)
        if not same(a, b_) and not (a[0] == b_[0] == 'err'):
            raise Violation(f"letter case of function names changed the result: {case['src']!r} -> {a!r}, {case['src2']!r} -> {b_!r}", case, 'law-function-case')
        return
    if case.get('kind') == 'fuzzy':
        return check_fuzzy(case, Stats())
    if case.get('kind') == 'nested':
        return check_nested(case, Stats())
    if case.get('kind') == 'ref':
        txn = lang.mk_txn(case['txn'])
        rows = lang.mk_rows(case['rows']) if case.get('rows') else {}
        exp = ref_eval(case['expr'], txn, case['vars'], rows)
        got = tally_eval(lang.render(case['expr']), txn, case['vars'], rows)
        if exp[0] != 'unspec' and not same(exp, got):
            raise Violation(f"expression {lang.render(case['expr'])!r} on {case['txn']}: reference {exp!r}, tally {got!r}", case, 'ref-mismatch')
        return
    if case.get('kind') == 'variant':
        txn = lang.mk_txn(case['txn'])
        rows = lang.mk_rows(case['rows'])
        tally_eval(lang.render(case['expr']), txn, case['vars'], rows)
        e_alt = lang.flip_str_literals(case['expr'], case['flip'])
        exp = ref_eval(e_alt, txn, case['vars'], rows)
        got = tally_eval(lang.render(e_alt), txn, case['vars'], rows)
        if exp[0] != 'unspec' and not same(exp, got):
            raise Violation(f"case-variant {lang.render(e_alt)!r} evaluated after {lang.render(case['expr'])!r}: tally {got!r}, reference {exp!r}", case, 'case-variant')
        return
    if case.get('kind') == 'law':
        txn = lang.mk_txn(case['txn'])
        rows = lang.mk_rows(case['rows'])
        run_laws(case['expr'], case['b2'], ERR_OPERANDS[case['err']], txn, case['txn'], case['vars'], rows, case['flip'], set(),
                 lambda name, extra=None: case)
        return
    check(case, Stats())


# ------------------------------------------------------------------------------------------------
# fuzzy(): the documented approximate match (typos; "80% similar"; optional threshold) - the similarity measure itself is not documented, so
# only laws that hold for ANY similarity in [0, 1] with "100% similar = equal" are asserted, plus the documented one-typo examples
# ------------------------------------------------------------------------------------------------
FUZZY_WORDS = ['STARBUCKS', 'MARKETPLACE', 'COSTCO WHOLESALE', 'Netflix.com', 'TRADER JOES', 'WALGREENS', 'amazon prime', 'SHELL OIL 5744']
THRESHOLDS = [0.5, 0.6, 0.75, 0.8, 0.9, 0.95, 1, 1.0]
fuzzy_st = st.fixed_dictionaries({
    'kind': st.just('fuzzy'), 'word': st.sampled_from(FUZZY_WORDS), 'typo': st.sampled_from(['none', 'delete', 'substitute', 'unrelated', 'transpose']), 'pos': st.integers(1, 30),
    'before': st.lists(lang.word, max_size=2), 'after': st.lists(lang.word, max_size=2), 'where': st.sampled_from(['description', 'description', 'field']),
    't1': st.sampled_from(THRESHOLDS), 't2': st.sampled_from(THRESHOLDS), 'flip': st.integers(0, 65535), 'txn': lang.txn_case})


def check_fuzzy(case, stats: Stats):
    w = case['word']
    i = 1 + case['pos'] % (len(w) - 2)
    seen = {'none': w, 'delete': w[:i] + w[i + 1:], 'substitute': w[:i] + ('X' if w[i].upper() != 'X' else 'Q') + w[i + 1:],
            'transpose': w[:i] + w[i + 1] + w[i] + w[i + 2:], 'unrelated': 'ZZZQ 0000'}[case['typo']]
    text = ' '.join(case['before'] + [seen] + case['after'])
    tc = dict(case['txn'], description=text if case['where'] == 'description' else 'SOMETHING ELSE', field={'memo': text} if case['where'] == 'field' else case['txn']['field'])
    txn = lang.mk_txn(tc)
    targ = [] if case['where'] == 'description' else ['field.memo']

    def F(pattern, thr=None, tx=txn):
        args = targ + [lang.lit(pattern)] + ([repr(thr)] if thr is not None else [])
        r = tally_eval('fuzzy(' + ', '.join(args) + ')', tx)
        if r[0] != 'val' or not isinstance(r[1], bool):
            raise Violation(f'fuzzy({", ".join(args)}) on {text!r} gave {r!r}', case, 'fuzzy-value')
        return r[1]
    lo, hi = sorted([case['t1'], case['t2']])
    contains = tally_eval(f'contains({", ".join(targ + [lang.lit(w)])})', txn)[1]
    if F(w, hi) and not F(w, lo):
        raise Violation(f'fuzzy is not monotone in its threshold: true at {hi} but false at {lo} for {w!r} in {text!r}', case, 'fuzzy-monotone')
    if F(w) != F(w, 0.8):
        raise Violation(f'default threshold is not the documented 0.80 for {w!r} in {text!r}', case, 'fuzzy-default')
    if contains and not (F(w) and F(w, 1.0) and F(w, 1)):
        raise Violation(f'contains({w!r}) is true but fuzzy is false on {text!r}', case, 'law-fuzzy')
    if F(w, 1.0) != contains:
        raise Violation(f'fuzzy({w!r}, 1.0) = {F(w, 1.0)} but contains = {contains} on {text!r} (100% similar means equal)', case, 'fuzzy-exact')
    if F(lang.flip_case(w, case['flip']), lo) != F(w, lo):
        raise Violation(f'letter case of the fuzzy pattern changed the result for {w!r} in {text!r}', case, 'law-case')
    tx2 = lang.mk_txn(dict(tc, description=lang.flip_case(tc['description'], case['flip']), field=None if tc['field'] is None else {k: lang.flip_case(v, case['flip']) for k, v in tc['field'].items()}))
    if F(w, lo, tx2) != F(w, lo):
        raise Violation(f'letter case of the text changed fuzzy({w!r}) on {text!r}', case, 'law-case')
    if case['typo'] in ('delete', 'substitute') and not F(w):
        raise Violation(f'documented typo tolerance: {seen!r} (one {case["typo"]}) inside {text!r} does not fuzzy-match {w!r} at the default threshold', case, 'fuzzy-typo')
    if case['typo'] == 'unrelated' and not case['before'] and not case['after'] and F(w, 0.9):
        # (only when the unrelated text stands alone: generated neighbour words may themselves resemble the pattern - 'NETFLIX COM' is one edit from 'Netflix.com')
        raise Violation(f'fuzzy({w!r}, 0.9) matches unrelated text {text!r}', case, 'fuzzy-unrelated')
    stats.case(jhash(case), case['typo'] != 'none' and bool(case['before'] or case['after']), {'fuzzy', 'fuzzy_' + case['typo'], 'fuzzy_text_arg' if targ else 'fuzzy_description'},
               sample={'text': text, 'word': w} if len(stats.samples) < 2 else None)


# ------------------------------------------------------------------------------------------------
# comprehensions with SEVERAL for-clauses: compared with Python's own evaluation of the same text (no string comparisons in these shapes)
# ------------------------------------------------------------------------------------------------
NESTED = ['[c for o in orders for c in o.item]', 'len([c for o in orders for c in o.item])', 'sum(1 for o in orders for c in o.item)',
          'sum(r.amount for o in orders for r in receipts if r.amount >= o.amount)', '[x for o in orders for x in [r.amount for r in receipts if r.amount >= o.amount]]',
          'len([1 for o in orders for r in receipts for c in r.item if r.qty >= o.qty])', '[o.amount + r.amount for o in orders for r in receipts]',
          'sum(o.qty for o in orders for c in o.item if o.amount > 10)',
          # any() / all() / next() stop at the deciding row: a name bound by := inside them holds THAT row's value afterwards
          # (and / or give Booleans in the rule language: every shape ends in a comparison)
          'any((hit := r.amount) > 10 for r in orders) and hit > 10', 'all((seen := r.amount) < 100 for r in orders) or seen >= 100', 'next((first := r.qty) for r in orders if r.amount > 0) + first',
          'any((hit := r.qty) >= 2 for r in receipts) and hit >= 2']
nested_st = st.fixed_dictionaries({'kind': st.just('nested'), 'rows': lang.rows_case, 'txn': lang.txn_case})


def check_nested(case, stats):
    from types import SimpleNamespace as NS
    txn0 = lang.mk_txn(case['txn'])
    rows = lang.mk_rows(case['rows'])
    py_ns = {k: [NS(**r) for r in v] for k, v in rows.items()}
    for src in NESTED:
        try:
            exp = ('val', eval(src, dict(py_ns, __builtins__={'len': len, 'sum': sum, 'max': max, 'any': any, 'all': all, 'next': next})))  # one namespace: nested scopes of the comprehension see it
        except Exception as e:
            exp = ('err', type(e).__name__)
        got = tally_eval(src, txn0, {}, rows)
        if (got[0] == 'val') != (exp[0] == 'val') or (got[0] == 'val' and not same(got, exp)):
            raise Violation(f'{src!r} gives {got!r}, Python gives {exp!r} for orders={case["rows"]["orders"]} receipts={case["rows"]["receipts"]}', case, 'nested-comprehension')
    multi = len(case['rows']['orders']) >= 2 and len({r['item'] for r in case['rows']['orders']}) >= 2
    stats.case(jhash(case), multi, {'nested_comprehension'} | ({'nested_comprehension_rows_differ'} if multi else set()), sample=None)


def shards(tier):
    n = 400 if tier == 'quick' else 12000
    ex = 4 if tier == 'quick' else 8
    return [(f'exhaustive:{i}:{ex}', 0) for i in range(ex)] + [('random', n)] * (15 - ex if tier == 'quick' else 15) + [('fuzzy', 600 if tier == 'quick' else 20000), ('nested', 300 if tier == 'quick' else 6000)]


def run_shard(kind, n, seed, tier):
    s = Stats()
    if kind.startswith('exhaustive'):
        _, part, nparts = kind.split(':')
        try:
            exhaustive(tier, s, int(part), int(nparts))
        except Violation as v:
            s.violation(v)
        return s
    if kind == 'fuzzy':
        campaign(fuzzy_st, check_fuzzy, n, seed, s, tier)
        return s
    if kind == 'nested':
        campaign(nested_st, check_nested, n, seed, s, tier)
        return s
    campaign(case_st, check, n, seed, s, tier)
    return s
