"""C01 - First matching categorizing rule decides merchant, category and subcategory."""
from __future__ import annotations

from hypothesis import strategies as st

from tv import csvrules, lang, obs, rules as R
from tv.harness import Stats, Violation, campaign, jhash

ID = 'C01'
LEVEL = 'exploration'
RULE = ('Generated .rules files (0-8 rules, categorizing and tag-only interleaved; typed conditions over every documented '
        'construct; top-level variables, let bindings incl. shadowing/unbound names, field transforms) x 2-4 transactions whose '
        'descriptions overlap the file\'s own patterns, observed through parse_merchants().match and through '
        'get_all_rules+get_transforms+normalize_merchant (cached-engine path), compared with a reference first-match '
        'classifier and with metamorphic relations observed on tally alone (delete false rules, delete/permute rules after '
        'the winner, insert tag-only rules, Unknown name depends on description only); plus generated legacy CSV rule files '
        '(regex patterns + amount/date/month modifiers) through get_all_rules(csv)+normalize_merchant against the documented '
        'CSV semantics. Non-trivial = >=2 categorizing rules match, or a tag-only rule matches before the winner, or a '
        'transform changes the winner, or no rule matches while rules exist, or (CSV) a modifier decides; distinct by hash.')
ASSUMPTIONS = ['reference classifier in tv/rules.py is the reading of the documentation',
               'CSV patterns that look like expressions are a known finding (D-csv-heuristic) and are excluded by construction, counted',
               'month/year/day/weekday of a missing date: not asserted']
REQUIRED_CLASSES = ['statement_file', 'chained_transforms', 'shadowed_winner', 'tagonly_before_winner', 'transform_changes_winner', 'no_match', 'csv_modifier_decides', 'let_in_play']

case_st = st.deferred(lambda: _case())


@st.composite
def _case(draw):
    rf = draw(R.rule_file(max_rules=8, depth=2))
    txns = draw(R.txn_list(rf))
    if draw(st.integers(0, 2)) == 0:
        # a statement that pads its description column, and a rule that depends on the run of blanks as written
        m = draw(st.sampled_from([['match', 'regex', None, r'\S\s{2,}\S'], ['match', 'contains', None, 'WIRE   FEE'], ['not', ['match', 'regex', None, r'^\S+( \S+)*$']]]))
        rf = dict(rf, rules=[{'name': 'Padded', 'match': m, 'category': 'Bills & Utilities', 'subcategory': 'Padded', 'merchant': None, 'priority': None, 'tags': ['padded'], 'lets': [],
                              'fields': []}] + rf['rules'])
        txns = txns + [R.nonzero(dict(txns[0], description=draw(st.sampled_from(['WIRE   FEE 0042', 'ACME  CORP   PAYMENT', 'wire   fee']))))]
    n = len(rf['rules'])
    return {'kind': 'rules', 'rf': rf, 'txns': txns, 'rows': draw(lang.rows_opt),
            'del': draw(st.lists(st.booleans(), min_size=n, max_size=n)),
            'perm': draw(st.permutations(list(range(n)))),
            'ins': draw(st.lists(st.tuples(st.integers(0, n), R.rule(1, tag_only_p=10)).map(list), max_size=2)),
            'alt': draw(lang.txn_case)}


def mcs(d):
    return (d['merchant'], d['category'], d['subcategory'])


def load(text, case, what='generated file'):
    try:
        return obs.load_engine(text)
    except Exception as e:
        raise Violation(f'{what} was rejected by the loader: {type(e).__name__}: {e}\n{text}', case, 'load-fails')


def classify(engine, txn, rows, case):
    try:
        return obs.engine_classify(engine, txn, rows)
    except obs.Crash as c:
        raise Violation(f'{c} on {txn}', case, 'crash')


def statement_file(case, path, rows, loaded, text, classes):
    """The same transactions written as ONE statement file (custom columns captured) and read by parse_generic_csv - the path `tally up` takes:
    every row must get the classification normalize_merchant gives that row alone."""
    import csv as _csv
    import os
    from tally.format_parser import parse_format_string
    from tally.parsers import extract_location, parse_generic_csv
    txns = [t for t in case['txns'] if t['date'] and t['description'].strip() and '\n' not in t['description'] and '\r' not in t['description']]
    if len(txns) < 2 or loaded is None:
        return
    fp = os.path.join(os.path.dirname(path), 'statement.csv')
    with open(fp, 'w', newline='', encoding='utf-8') as f:
        w = _csv.writer(f)
        w.writerow(['Date', 'Description', 'Amount', 'Memo', 'Type', 'Code', 'Vendor'])
        for t in txns:
            fld = t['field'] or {}
            w.writerow([t['date'], t['description'], repr(t['amount'])] + [fld.get(k, '') for k in ('memo', 'type', 'code', 'vendor')])
    spec = parse_format_string('{date:%Y-%m-%d},{description},{amount},{memo},{type},{code},{vendor}')
    rules, transforms = loaded
    try:
        out = parse_generic_csv(fp, spec, rules, source_name='Amex', transforms=transforms, data_sources=rows)
    except Exception as e:
        raise Violation(f'parse_generic_csv aborted on a statement of {len(txns)} rows: {type(e).__name__}: {e}\n{text}', case, 'crash')
    if len(out) != len(txns):
        raise Violation(f'parse_generic_csv returned {len(out)} transactions for {len(txns)} well-formed rows\n{txns}\n{text}', case, 'statement-rows')
    for t, got in zip(txns, out):
        fld = t['field'] or {}
        desc = t['description'].strip()
        alone = lang.mk_txn(dict(t, amount=float(t['amount']), description=desc, field={k: fld.get(k, '').strip() for k in ('memo', 'type', 'code', 'vendor')}, source='Amex', location=extract_location(desc)))
        b = obs.pipeline_classify(path, alone, rows, loaded=loaded)
        if (got['merchant'], got['category'], got['subcategory']) != mcs(b) or set(got['tags']) != b['tags']:
            raise Violation(f"row {t} of a statement file is classified {(got['merchant'], got['category'], got['subcategory'], sorted(got['tags']))}, the same row alone "
                            f"{mcs(b) + (sorted(b['tags']),)}\nall rows: {txns}\n{text}", case, 'statement-row')
    classes.add('statement_file')


def check(case, stats: Stats):
    if case.get('kind') == 'csv':
        return check_csv(case, stats)
    rf = case['rf']
    text = R.render_file(rf)
    rows = lang.mk_rows(case['rows'])
    obs.clear_caches()
    engine = load(text, case)
    if len(engine.rules) != len(rf['rules']):
        raise Violation(f"{len(rf['rules'])} sections loaded as {len(engine.rules)} rules\n{text}", case, 'rule-count')
    path = obs.write_rules(text)
    loaded = None
    classes = set()
    nontrivial = False
    if any(r['lets'] for r in rf['rules']):
        classes.add('let_in_play')
    if rf['vars']:
        classes.add('var_in_play')
    for tc in case['txns']:
        txn = lang.mk_txn(tc)
        try:
            ref = R.ref_classify(rf, txn, rows)
        except lang.Unspecified:
            classes.add('unspecified_skipped')
            ref = None
        a = classify(engine, txn, rows, case)
        try:
            b = obs.pipeline_classify(path, txn, rows, loaded=loaded)
        except obs.Crash as c:
            raise Violation(f'{c} on {tc}\n{text}', case, 'crash')
        loaded = b['loaded']
        # engine and pipeline agree with each other
        if a['matched']:
            if mcs(a) != mcs(b):
                raise Violation(f'engine says {mcs(a)}, normalize_merchant says {mcs(b)} for {tc}\n{text}', case, 'engine-vs-pipeline')
        elif (b['category'], b['subcategory']) != ('Unknown', 'Unknown'):
            raise Violation(f'engine matched nothing but normalize_merchant says {mcs(b)} for {tc}\n{text}', case, 'engine-vs-pipeline')
        if ref is not None and rf['transforms'] and ref['state_known']:
            # "after the file's field transforms have been applied": the transforms are assignments carried out in file order, each seeing its predecessors
            if a['description'] != ref['description'] or (txn.get('field') is not None and a['field'] != ref['field']):
                raise Violation(f"after the field transforms the transaction is description={a['description']!r} field={a['field']!r}, expected "
                                f"description={ref['description']!r} field={ref['field']!r} for {tc}\n{text}", case, 'transform-state')
            if len(rf['transforms']) >= 2:
                classes.add('chained_transforms')
        if ref is not None:
            want = (ref['merchant'], ref['category'], ref['subcategory'])
            got = mcs(a)
            if ref['winner'] is None:
                if a['matched']:
                    raise Violation(f'no categorizing rule is true for {tc} but tally assigns {got}\n{text}', case, 'ref-mismatch')
                if (b['category'], b['subcategory']) != ('Unknown', 'Unknown'):
                    raise Violation(f'expected Unknown/Unknown, pipeline says {mcs(b)}', case, 'ref-mismatch')
            else:
                if got != want:
                    raise Violation(f"first true categorizing rule is #{ref['winner']} -> {want}, tally says {got} (rule #{a['winner_idx']})"
                                    f" for {tc}\nper-rule truth {ref['truths']}\n{text}", case, 'ref-mismatch')
                if a['extra_fields'] != ref['extra_fields']:
                    raise Violation(f"extra fields {a['extra_fields']!r} != expected {ref['extra_fields']!r} for {tc}\n{text}", case, 'ref-fields')
            cat_true = [i for i, r in enumerate(rf['rules']) if ref['truths'][i] and r['category']]
            if len(cat_true) >= 2:
                classes.add('shadowed_winner')
                nontrivial = True
            if ref['winner'] is not None and any(ref['truths'][i] and not rf['rules'][i]['category'] for i in range(ref['winner'])):
                classes.add('tagonly_before_winner')
                nontrivial = True
            if ref['winner'] is None and rf['rules']:
                classes.add('no_match')
                nontrivial = True
            if rf['transforms']:
                try:
                    nt = R.ref_classify(dict(rf, transforms=[]), txn, rows)
                    if nt['winner'] != ref['winner']:
                        classes.add('transform_changes_winner')
                        nontrivial = True
                except lang.Unspecified:
                    pass
        metamorphic(case, rf, engine, txn, tc, rows, a, classes)
    statement_file(case, path, rows, loaded, text, classes)
    # Unknown name depends on the description only
    t1 = lang.mk_txn(case['txns'][0])
    alt = lang.mk_txn(dict(case['alt'], description=case['txns'][0]['description']))
    b1 = obs.pipeline_classify(path, t1, rows, loaded=loaded)
    b2 = obs.pipeline_classify(path, alt, rows, loaded=loaded)
    if b1['category'] == 'Unknown' and b2['category'] == 'Unknown' and not rf['transforms']:
        classes.add('unknown_pair')
        if b1['merchant'] != b2['merchant']:
            raise Violation(f"Unknown merchant name differs for the same description: {b1['merchant']!r} vs {b2['merchant']!r}\n"
                            f"{case['txns'][0]} vs {case['alt']}", case, 'unknown-name')
    stats.case(jhash(case), nontrivial, classes, sample={'rules': text[:600], 'txn': case['txns'][0]})


def metamorphic(case, rf, engine, txn, tc, rows, base, classes):
    """Relations observed on tally alone (no reference model)."""
    n = len(rf['rules'])
    if n == 0:
        return
    # per-rule truth = the rule loaded alone (same variables and transforms) matches
    truth = []
    for i, r in enumerate(rf['rules']):
        eng = load(R.render_file(dict(rf, rules=[r])), case, 'single-rule file')
        truth.append(bool(classify(eng, txn, rows, case)['matching']))
    # (1) delete a subset of false rules: nothing about the result may change
    keep = [i for i in range(n) if truth[i] or not case['del'][i]]
    if len(keep) < n:
        classes.add('mm_delete_false')
        eng = load(R.render_file(dict(rf, rules=[rf['rules'][i] for i in keep])), case)
        r2 = classify(eng, txn, rows, case)
        if mcs(r2) != mcs(base) or r2['tags'] != base['tags'] or r2['extra_fields'] != base['extra_fields']:
            raise Violation(f"deleting rules {[i for i in range(n) if i not in keep]} (each false for this transaction when loaded alone) changed the "
                            f"result from {mcs(base)} tags={sorted(base['tags'])} to {mcs(r2)} tags={sorted(r2['tags'])}\n{tc}\n{R.render_file(rf)}",
                            case, 'mm-delete-false')
    # (2) rules after the winner cannot change merchant/category/subcategory
    w = base['winner_idx']
    if w is not None and w < n - 1:
        classes.add('mm_after_winner')
        eng = load(R.render_file(dict(rf, rules=rf['rules'][:w + 1])), case)
        r3 = classify(eng, txn, rows, case)
        if mcs(r3) != mcs(base):
            raise Violation(f'removing the rules after the winner #{w} changed {mcs(base)} to {mcs(r3)}\n{tc}\n{R.render_file(rf)}', case, 'mm-after-winner')
        tail = [rf['rules'][i] for i in case['perm'] if i > w]
        eng = load(R.render_file(dict(rf, rules=rf['rules'][:w + 1] + tail)), case)
        r4 = classify(eng, txn, rows, case)
        if mcs(r4) != mcs(base):
            raise Violation(f'permuting the rules after the winner #{w} changed {mcs(base)} to {mcs(r4)}\n{tc}\n{R.render_file(rf)}', case, 'mm-after-winner')
    # (3) inserting tag-only rules anywhere never changes merchant/category/subcategory
    if case['ins']:
        rs = list(rf['rules'])
        for pos, tr in sorted(case['ins'], key=lambda p: -p[0]):
            rs.insert(min(pos, len(rs)), dict(tr, category='', subcategory=''))
        eng = load(R.render_file(dict(rf, rules=rs)), case)
        r5 = classify(eng, txn, rows, case)
        if mcs(r5) != mcs(base):
            raise Violation(f'inserting tag-only rules changed {mcs(base)} to {mcs(r5)}\n{tc}\n{R.render_file(dict(rf, rules=rs))}', case, 'mm-insert-tagonly')
        classes.add('mm_insert_tagonly')


# ------------------------------------------------------------------------------------------------
# legacy CSV rule files
# ------------------------------------------------------------------------------------------------
@st.composite
def csv_case(draw):
    rules = draw(csvrules.csv_file(max_rules=6, escapes=True, quotes=True))
    txns = []
    for _ in range(draw(st.integers(2, 4))):
        t = draw(lang.txn_case)
        if rules and draw(st.integers(0, 5)) > 0:
            with_mods = [x for x in rules if x['mods']] or rules
            r = draw(st.sampled_from(with_mods))
            for m in r['mods']:
                if m['k'] == 'amount':
                    base = m.get('v', m.get('lo'))
                    t = dict(t, amount=round(base + draw(st.sampled_from([-0.01, -0.005, 0, 0, 0, 0.005, 0.01, 0.011, -0.011])), 4))
                elif m['k'] == 'date' and m['op'] in ('=', ':'):
                    t = dict(t, date=draw(st.sampled_from([m.get('d') or m['lo'], m.get('hi') or m['d']])))
            ws = draw(st.lists(lang.word, min_size=1, max_size=3))
            lits = [w for w in lang.WORDS if w.isalnum() and w in r['pattern']]
            if r['pattern'] in csvrules.LOOKALIKE_ATOMS:
                lits = [r['pattern']]
            t = dict(t, description=lang.flip_case(' '.join(ws + lits), draw(st.integers(0, 65535))))
        txns.append(t)
    return {'kind': 'csv', 'rules': rules, 'txns': txns}


def check_csv(case, stats: Stats):
    from tally.merchant_utils import get_all_rules, normalize_merchant
    rules = case['rules']
    excluded = [] if case.get('keep_known') else [r for r in rules if csvrules.looks_like_expression(r['pattern']) or r['pattern'].startswith('#')]
    if excluded:
        stats.excluded['csv_pattern_looks_like_expression(D-csv-heuristic)'] += len(excluded)
        rules = [r for r in rules if r not in excluded]
    text = csvrules.render_csv(rules)
    obs.clear_caches()
    path = obs.write_rules(text, 'merchant_categories.csv')
    try:
        loaded = get_all_rules(path)
    except Exception as e:
        raise Violation(f'get_all_rules(csv) raised {type(e).__name__}: {e}\n{text}', case, 'csv-load')
    if len(loaded) != len(rules):
        raise Violation(f'{len(rules)} CSV rows loaded as {len(loaded)} rules\n{text}', case, 'csv-count')
    classes = set()
    nontrivial = False
    for tc in case['txns']:
        txn = lang.mk_txn(tc)
        ref = csvrules.ref_classify(rules, txn)
        try:
            m, c, s, info = normalize_merchant(txn['description'], loaded, amount=txn['amount'], txn_date=txn.get('date'),
                                               data_source=txn.get('source'))
        except Exception as e:
            raise Violation(f'normalize_merchant (CSV rules) raised {type(e).__name__}: {e} on {tc}\n{text}', case, 'csv-crash')
        if ref['winner'] is None:
            if (c, s) != ('Unknown', 'Unknown'):
                raise Violation(f'no CSV rule with a category matches {tc} but tally says {(m, c, s)}\n{text}', case, 'csv-ref')
            if rules:
                classes.add('no_match')
        elif (m, c, s) != (ref['merchant'], ref['category'], ref['subcategory']):
            raise Violation(f"first matching CSV rule is row {ref['winner']} -> {(ref['merchant'], ref['category'], ref['subcategory'])}, tally says {(m, c, s)} "
                            f'for {tc}\n{text}', case, 'csv-ref')
        for r in rules:
            if r['mods'] and __import__('re').search(r['pattern'], txn['description'], __import__('re').I):
                classes.add('csv_modifier_decides')
                nontrivial = True
        if len([r for r in rules if r['category'] and csvrules.rule_true(r, txn)]) >= 2:
            classes.add('shadowed_winner')
            nontrivial = True
    stats.case(jhash(case), nontrivial, classes | {'csv_case'}, sample={'csv': text[:400], 'txn': case['txns'][0]})


def replay(case):
    try:
        check(case, Stats())
    finally:
        obs.cleanup()


def shards(tier):
    n = 120 if tier == 'quick' else 2500
    return [('rules', n)] * 12 + [('csv', n * 8)] * 4


def run_shard(kind, n, seed, tier):
    s = Stats()
    try:
        campaign(case_st if kind == 'rules' else csv_case(), check, n, seed, s, tier)
    finally:
        obs.cleanup()
    return s
