"""Common machinery: seeds, sharding, case classification, evidence, replay I/O, exit codes.

Every property module (tv/props/Cxx.py) exposes

    ID, TITLE, LEVEL ('exploration' | 'fault_enumeration'), RULE (str), ASSUMPTIONS (list)
    def shards(tier) -> list of (kind, n)            # units of work; run in worker processes
    def run_shard(kind, n, seed, tier) -> Stats       # generated campaign / enumeration
    def replay(case) -> None                          # raises Violation when `case` violates the property
    def known_class(case, message) -> str | None      # optional: root-cause class for known findings

A check never reads the clock for verdicts, never uses its own RNG: all randomness comes from
Hypothesis seeded with f(VERIF_SEED, shard).
"""
from __future__ import annotations

import hashlib
import json
import multiprocessing as mp
import os
import sys
import time
import traceback
from collections import Counter

VERIF = os.path.dirname(os.path.dirname(os.path.abspath(__file__)))
TALLY_SRC = os.environ.get('TALLY_SRC', '/repo/src')
if TALLY_SRC not in sys.path[:1]:
    sys.path.insert(0, TALLY_SRC)

import hypothesis  # noqa: E402
from hypothesis import HealthCheck, Phase, given, settings  # noqa: E402


class Violation(Exception):
    """The property is contradicted by `case` (JSON-able)."""

    def __init__(self, message, case=None, klass=None):
        super().__init__(message)
        self.message = message
        self.case = case
        self.klass = klass


class HarnessError(Exception):
    pass


class CaseTimeout(BaseException):
    """A single case exceeded its wall-clock guard: inconclusive, never a verdict."""


class time_guard:
    """with time_guard(seconds): ...  raises CaseTimeout in the main thread of a worker process."""

    def __init__(self, seconds):
        self.seconds = seconds

    def _fire(self, signum, frame):
        raise CaseTimeout()

    def __enter__(self):
        import signal
        self._t0 = time.time()
        self._prev = signal.getitimer(signal.ITIMER_REAL)  # an enclosing guard, if any
        self._old = signal.signal(signal.SIGALRM, self._fire)
        # repeating: a timeout raised where exceptions are swallowed (inside an audit hook, a __del__) fires again a second later
        signal.setitimer(signal.ITIMER_REAL, self.seconds, 1.0)

    def __exit__(self, *exc):
        import signal
        signal.setitimer(signal.ITIMER_REAL, 0)
        signal.signal(signal.SIGALRM, self._old)
        if self._prev[0] > 0:  # re-arm the enclosing guard with what is left of its budget
            signal.setitimer(signal.ITIMER_REAL, max(self._prev[0] - (time.time() - self._t0), 0.05), self._prev[1] or 1.0)
        return False


def jhash(obj) -> str:
    return hashlib.sha1(json.dumps(obj, sort_keys=True, default=str).encode()).hexdigest()[:16]


class Stats:
    """Per-shard counters; merged across shards."""

    MAX_SAMPLES = 6

    def __init__(self):
        self.evaluations = 0
        self.nontrivial = set()
        self.classes = Counter()
        self.excluded = Counter()
        self.samples = []
        self.violations = []  # list of dict(message, case, klass)
        self.exhaustive = {}
        self.notes = []

    def case(self, case_key, nontrivial, classes=(), sample=None):
        self.evaluations += 1
        for c in classes:
            self.classes[c] += 1
        if nontrivial:
            h = case_key if isinstance(case_key, str) and len(case_key) == 16 else jhash(case_key)
            if h not in self.nontrivial:
                self.nontrivial.add(h)
                if sample is not None and len(self.samples) < self.MAX_SAMPLES:
                    self.samples.append(sample)

    def violation(self, v: Violation):
        self.violations.append({'message': v.message, 'case': v.case, 'klass': v.klass})

    def merge(self, other: 'Stats'):
        self.evaluations += other.evaluations
        self.nontrivial |= other.nontrivial
        self.classes.update(other.classes)
        self.excluded.update(other.excluded)
        for s in other.samples:
            if len(self.samples) < self.MAX_SAMPLES:
                self.samples.append(s)
        self.violations.extend(other.violations)
        for k, v in other.exhaustive.items():
            self.exhaustive[k] = self.exhaustive.get(k, True) and v
        self.notes.extend(other.notes)


def hyp_settings(n, tier, shrink=True):
    phases = [Phase.explicit, Phase.generate, Phase.target]
    if shrink:
        phases.append(Phase.shrink)
    return settings(
        max_examples=n,
        deadline=None,
        database=None,
        derandomize=False,
        report_multiple_bugs=False,
        print_blob=False,
        phases=phases,
        suppress_health_check=[HealthCheck.too_slow, HealthCheck.data_too_large,
                               HealthCheck.filter_too_much, HealthCheck.large_base_example],
    )


CASE_TIMEOUT = int(os.environ.get('TV_CASE_TIMEOUT', '120'))


def campaign(strategy, check, n, seed, stats: Stats, tier='quick', shrink=None, max_findings=1):
    """Run `check(case, stats)` over `n` cases drawn from `strategy`.

    `check` raises Violation to report; the shrunk (minimal) failing case is recorded.  Cases must be
    JSON-able so that the replay file alone reproduces the failure without Hypothesis.
    """
    if shrink is None:
        # quick tier: report the first failing case as found (bounded time); thorough tier: shrink to a minimal case
        shrink = (tier == 'thorough') or os.environ.get('TV_SHRINK') == '1'
    holder = {}

    @hypothesis.seed(seed)
    @settings(parent=hyp_settings(n, tier, shrink))
    @given(strategy)
    def _t(case):
        try:
            with time_guard(CASE_TIMEOUT):
                check(case, stats)
        except CaseTimeout:  # a wall-clock budget hit is inconclusive, never a verdict (and never a hang of the check)
            stats.classes['timeout_inconclusive'] += 1
            stats.notes.append('case exceeded %ds (inconclusive): %s' % (CASE_TIMEOUT, json.dumps(case, default=str)[:200]))
        except Violation as v:
            if v.case is None:
                v.case = case
            holder['v'] = v
            raise

    try:
        _t()
    except Violation:
        stats.violation(holder['v'])
    except hypothesis.errors.Flaky as e:  # nondeterministic check = harness defect, never a verdict
        raise HarnessError('flaky check: ' + ''.join(traceback.format_exception(e))[-6000:])
    except hypothesis.errors.FailedHealthCheck as e:
        raise HarnessError(f'generator health check failed: {e}')


# ---------------------------------------------------------------------------------------------
# known findings / replay files
# ---------------------------------------------------------------------------------------------

def load_known(pid):
    p = os.path.join(VERIF, 'known_findings.json')
    if not os.path.exists(p):
        return []
    data = json.load(open(p))
    return [e for e in data.get('findings', []) if e.get('property') == pid]


def save_replay(pid, viol):
    d = os.path.join(os.environ.get('TV_REPLAY_DIR') or os.path.join(VERIF, 'replays'), pid)
    os.makedirs(d, exist_ok=True)
    body = {'property': pid, 'message': viol['message'], 'klass': viol.get('klass'), 'case': viol['case']}
    path = os.path.join(d, jhash(body['case']) + '.json')
    with open(path, 'w') as f:
        json.dump(body, f, indent=1, sort_keys=True, default=str)
    return path


def corpus_cases(pid):
    d = os.path.join(VERIF, 'corpus', pid)
    if not os.path.isdir(d):
        return []
    out = []
    for fn in sorted(os.listdir(d)):
        if fn.endswith('.json'):
            out.append((fn, json.load(open(os.path.join(d, fn)))))
    return out


# ---------------------------------------------------------------------------------------------
# runner
# ---------------------------------------------------------------------------------------------

def _cov_start():
    """TV_COV=<dir>: record which lines of tally's sources a worker executes (sys.monitoring, each line reported once) - a generator-gap finder,
    never part of a verdict."""
    mon = sys.monitoring
    seen = set()
    root = os.path.join(os.environ.get('TALLY_SRC') or '/repo/src', 'tally')

    def on_line(code, line):
        if code.co_filename.startswith(root):
            seen.add((code.co_filename[len(root) + 1:], line))
        return mon.DISABLE
    try:
        mon.use_tool_id(mon.COVERAGE_ID, 'tvcov')
    except ValueError:
        pass
    mon.register_callback(mon.COVERAGE_ID, mon.events.LINE, on_line)
    mon.set_events(mon.COVERAGE_ID, mon.events.LINE)
    return seen


def _worker(args):
    modname, kind, n, seed, tier = args
    import importlib
    try:
        mod = importlib.import_module(modname)
        cov = _cov_start() if os.environ.get('TV_COV') else None
        st = mod.run_shard(kind, n, seed, tier)
        if cov is not None:
            os.makedirs(os.environ['TV_COV'], exist_ok=True)
            with open(os.path.join(os.environ['TV_COV'], f'{mod.ID}.{os.getpid()}.{kind}.json'), 'w') as f:
                json.dump(sorted(cov), f)
        return ('ok', st)
    except HarnessError as e:
        return ('err', f'{kind}: {e}')
    except BaseException:
        return ('err', f'{kind}: ' + traceback.format_exc())


def run_property(mod, tier, seed, jobs=None):
    """Returns process exit code."""
    t0 = time.time()
    pid = mod.ID
    total = Stats()
    known = load_known(pid)
    known_open = [k for k in known if k.get('status') == 'known']
    lines = []

    # 1. replay tier: committed regression corpus + witnesses of known findings
    corpus_n = 0
    for fn, body in corpus_cases(pid):
        corpus_n += 1
        try:
            mod.replay(body['case'])
        except Violation as v:
            v.case = body['case']
            total.violation(v)
    total.classes['corpus_replayed'] = corpus_n
    for k in known_open:
        still = False
        try:
            mod.replay(k['witness'])
        except Violation:
            still = True
        if still:
            lines.append(f"KNOWN-FINDING: property={pid} {k['id']}: {k['what']}")
        else:
            total.notes.append(f"known finding {k['id']} no longer reproduces")

    # 2. generated campaign, sharded
    work = []
    for i, (kind, n) in enumerate(mod.shards(tier)):
        work.append((mod.__name__, kind, n, (seed * 1000003 + i * 7919 + 17) % (2 ** 31), tier))
    jobs = jobs or int(os.environ.get('VERIF_JOBS', '16'))
    errors = []
    if work:
        ctx = mp.get_context('fork')
        with ctx.Pool(min(jobs, len(work))) as pool:
            for status, payload in pool.imap_unordered(_worker, work):
                if status == 'ok':
                    total.merge(payload)
                else:
                    errors.append(payload)

    # 3. verdict
    known_classes = {k.get('class') for k in known_open if k.get('class')}
    real = []
    for v in total.violations:
        if v.get('klass') and v['klass'] in known_classes:
            total.excluded['known:' + v['klass']] += 1
            continue
        real.append(v)
    seen = set()
    out_viol = []
    for v in real:
        key = v.get('klass') or jhash(v['case'])
        if key in seen:
            continue
        seen.add(key)
        path = save_replay(pid, v)
        out_viol.append((path, v))

    wall = time.time() - t0
    ev = {
        'property_id': pid,
        'tier': tier,
        'seed': seed,
        'level': mod.LEVEL,
        'coverage': {
            'evaluations': total.evaluations,
            'distinct_nontrivial': len(total.nontrivial),
            'rule': mod.RULE,
            'samples': total.samples[:Stats.MAX_SAMPLES] or ['(none)'],
            'classes': dict(sorted(total.classes.items())),
            'excluded': dict(sorted(total.excluded.items())),
            'exhaustive': bool(total.exhaustive) and all(total.exhaustive.values()) and getattr(mod, 'ALL_EXHAUSTIVE', False),
            'exhaustive_subdomains': total.exhaustive,
            'shards': len(work),
            'notes': total.notes[:20],
        },
        'assumptions': list(getattr(mod, 'ASSUMPTIONS', [])),
        'wall_s': round(wall, 2),
        'violations': len(out_viol),
        'known_findings_reported': [l for l in lines],
        'harness_errors': errors[:5],
    }
    evdir = os.environ.get('TV_EVIDENCE_DIR') or os.path.join(VERIF, 'evidence')
    os.makedirs(evdir, exist_ok=True)
    with open(os.path.join(evdir, pid + '.json'), 'w') as f:
        json.dump(ev, f, indent=1, default=str)

    for l in lines:
        print(l)
    for path, v in out_viol:
        print(f'VIOLATION property={pid} replay={path}')
        print('  ' + v['message'].replace('\n', '\n  ')[:1500])
    print(f"[{pid}] tier={tier} seed={seed} evaluations={total.evaluations} "
          f"distinct_nontrivial={len(total.nontrivial)} violations={len(out_viol)} wall={wall:.1f}s")
    if errors:
        for e in errors:
            print('HARNESS-ERROR ' + e, file=sys.stderr)
    if out_viol:
        return 1
    if errors:
        return 2
    required = getattr(mod, 'REQUIRED_CLASSES', [])
    missing = [c for c in required if total.classes.get(c, 0) == 0]
    if missing:
        print(f'HARNESS-ERROR required classes never generated: {missing}', file=sys.stderr)
        return 2
    if len(total.nontrivial) < 2:
        print('HARNESS-ERROR fewer than 2 non-trivial cases', file=sys.stderr)
        return 2
    return 0


def run_replay(mod, path):
    body = json.load(open(path))
    case = body['case'] if 'case' in body else body
    try:
        mod.replay(case)
    except Violation as v:
        print(f'VIOLATION property={mod.ID} replay={path}')
        print('  ' + v.message[:3000])
        return 1
    print(f'[{mod.ID}] replay {path}: property holds on this case')
    return 0
