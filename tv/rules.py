"""Rule-file (.rules) IR: generator, canonical renderer, and reference classifier (first_match + tags + most_specific ranks).

The reference is written from `tally reference`, the starter-file comments and the property statements; it never calls tally.
"""
from __future__ import annotations

from hypothesis import strategies as st

from tv import lang
from tv.lang import RefErr, Unspecified, Env, ref_eval

RULE_NAMES = ['Netflix', 'Uber Eats', 'Uber', 'AMZN #1', 'Rule 7', 'Coffee ☕', 'Big Box', 'Wire', 'Misc', "O'Neil's", 'A_B', 'A B',
              'Large', 'Holiday', 'Travel-Inn', 'x', 'Amazon: Prime', 'Orig Co Name:Venmo', "Trader Joe's [Bay Area]", 'AMZN [Prime]']
CATEGORIES = ['Food', 'Subscriptions', 'Bills & Utilities', 'Shopping', 'Transport', 'Transfers: Out']
SUBCATS = ['', '', 'Streaming', 'Delivery', 'Online', 'Rideshare']
STATIC_TAGS = ['recurring', 'Food', ' large ', 'INCOME', 'transfer', 'business', 'Review', 'x-y', 'ünï', '#tax', 'schedule #e', "macy's", "kohl's", 'say "hi"']
LET_NAMES = ['m', 't', 'flag', 'lbl']


# ------------------------------------------------------------------------------------------------
# generation
# ------------------------------------------------------------------------------------------------
dyn_tag = st.one_of(
    st.sampled_from(lang.FIELD_KEYS).map(lambda k: ['field', k]),
    st.just(['name', 'source']),
    # field.<built-in> is the transaction's own value (source, location, description), not a custom column
    st.sampled_from(['source', 'location', 'description']).map(lambda n: ['fieldb', n]),
    st.sampled_from([r'REF:(\d+)', r'PROJ:(\w+)', r'#(\d+)', r'^(\S+)']).map(lambda p: ['call', 'extract', [['str', p]]]),
    st.just(['call', 'extract', [['field', 'memo'], ['str', r'PROJ:(\w+)']]]),
    # counted quantifiers: braces INSIDE the {expression}
    st.sampled_from([r'REF:(\d{2,})', r'(\d{4})', r'#(\d{1,6})', r'([A-Z]{3,})']).map(lambda p: ['call', 'extract', [['str', p]]]),
    st.just(['call', 'extract', [['field', 'memo'], ['str', r'REF:(\d{1,3})']]]),
    # a blank followed by # INSIDE the {expression}: not a comment
    st.sampled_from([r'ORDER #(\d+)', r'(\w+) #\d+', r'INV #(\w+)']).map(lambda p: ['call', 'extract', [['str', p]]]),
    st.just(['call', 'extract', [['field', 'memo'], ['str', r'REF #?(\d+)']]]),
    st.just(['listcomp', ['attr', 'r', 'item'], 'r', ['name', 'orders'], None]),
    st.just(['listcomp', ['attr', 'r', 'item'], 'r', ['name', 'orders'], ['cmp', ['attr', 'r', 'amount'], [['==', ['txn', 'amount']]]]]),
    st.just(['var', 'label']),
    st.just(['var', 'lbl']),
    st.just(['name', 'amount']),
    st.just(['cmp', ['name', 'amount'], [['>', ['num', 100]]]]),
    st.just(['field', 'nosuch']),
    st.just(['str', '']),
    st.just(['call', 'trim', [['field', 'memo']]]),
    st.just(['num', 0]),
)
tag = st.one_of(st.sampled_from(STATIC_TAGS), st.sampled_from(STATIC_TAGS), dyn_tag.map(lambda e: ['dyn', e]))


@st.composite
def let_and_match(draw, depth):
    """Optionally some let bindings and a match expression that uses them."""
    base = draw(lang.bool_expr(depth))
    kind = draw(st.integers(0, 9))
    if kind <= 4:
        return [], base
    if kind == 5:
        cond = draw(st.sampled_from([
            ['cmp', ['attr', 'r', 'amount'], [['==', ['txn', 'amount']]]],
            ['cmp', ['attr', 'r', 'qty'], [['>', ['num', 0]]]],
            ['match', 'contains', ['attr', 'r', 'item'], 'o'],
            None]))
        lets = [['m', ['listcomp', ['name', 'r'], 'r', ['name', draw(st.sampled_from(['orders', 'receipts']))], cond]]]
        m = ['and', [base, ['cmp', ['len', ['var', draw(st.sampled_from(['m', 'M']))]], [['>', ['num', 0]]]]]]
        if draw(st.booleans()):
            lets.append(['t', ['sumgen', ['attr', 'r', 'amount'], 'r', ['var', 'm'], None]])
            m = ['or', [m, ['cmp', ['var', 't'], [['>', ['num', 50]]]]]]
        return lets, m
    if kind == 6:
        return [['t', draw(lang.num_expr(2))]], ['and', [base, ['cmp', ['var', 't'], [[draw(st.sampled_from(['>', '<=', '!='])), ['num', draw(st.sampled_from(lang.CONSTS))]]]]]]
    if kind == 7:
        return [['flag', draw(lang.bool_expr(2))]], [draw(st.sampled_from(['and', 'or'])), [['var', 'flag'], base]]
    if kind == 8:
        return [['lbl', draw(lang.str_expr(2))]], ['or', [['match', 'contains', ['var', 'lbl'], draw(lang.pattern_text)], base]]
    if kind == 9 and draw(st.booleans()):
        # a let that SHADOWS a top-level variable, a data source or a primitive (visible to this rule only)
        name = draw(st.sampled_from(['threshold', 'is_large', 'label', 'orders', 'amount']))
        val = {'threshold': ['num', draw(st.sampled_from(lang.CONSTS))], 'is_large': ['lit', draw(st.booleans())], 'label': ['str', draw(lang.word)],
               'orders': ['listcomp', ['name', 'r'], 'r', ['name', 'receipts'], None], 'amount': ['num', draw(st.sampled_from(lang.CONSTS))]}[name]
        return [[name, val]], [draw(st.sampled_from(['and', 'or'])), [base, draw(st.sampled_from([['cmp', ['field', 'nosuch'], [['==', ['str', 'x']]]], ['lit', True], base]))]]
    # chained lets, possibly failing in the middle
    return [['t', draw(st.one_of(lang.num_expr(1), st.just(['field', 'nosuch'])))], ['flag', ['cmp', ['var', 't'], [['>', ['num', 10]]]]]], \
        ['or', [['var', 'flag'], base]]


@st.composite
def rule(draw, depth=2, tag_only_p=3):
    lets, match = draw(let_and_match(depth))
    tag_only = draw(st.integers(0, 9)) < tag_only_p
    tags = draw(st.lists(tag, min_size=1 if tag_only else 0, max_size=3))
    if tag_only and not any(isinstance(t, str) and t.strip() for t in tags):
        tags = tags + ['tagonly']
    if draw(st.integers(0, 5)) == 0:
        # a let binding that ONLY a dynamic tag reads (not match:, not a field:)
        lets = list(lets) + [['proj', draw(st.sampled_from([['call', 'extract', [['field', 'memo'], ['str', r'PROJ:(\w+)']]], ['call', 'extract', [['str', r'#(\d+)']]],
                                                            ['name', 'source'], ['field', 'type'], ['call', 'lowercase', [['name', 'source']]]]))]]
        tags = tags + [['dyn', ['var', draw(st.sampled_from(['proj', 'proj', 'Proj']))]]]
    r = {
        'name': draw(st.sampled_from(RULE_NAMES)),
        'match': match,
        'category': '' if tag_only else draw(st.sampled_from(CATEGORIES)),
        'subcategory': draw(st.sampled_from(SUBCATS)),
        'merchant': draw(st.one_of(st.none(), st.none(), st.sampled_from(['Display Co', 'UBER*'])))
        ,
        'priority': draw(st.one_of(st.none(), st.none(), st.sampled_from([0, 10, 50, 51, 100, -1]))),
        'tags': tags,
        'lets': lets,
        'fields': draw(st.lists(st.tuples(st.sampled_from(['items', 'n', 'note']),
                                          st.one_of(lang.str_expr(1), lang.num_expr(1),
                                                    st.just(['listcomp', ['attr', 'r', 'item'], 'r', ['name', 'orders'], None]),
                                                    st.just(['field', 'nosuch']))).map(list), max_size=2, unique_by=lambda p: p[0])),
    }
    return r


transform = st.one_of(
    st.tuples(st.just('description'), st.sampled_from([
        ['call', 'regex_replace', [['fieldb', 'description'], ['str', r'^APLPAY\s+'], ['str', '']]],
        ['call', 'regex_replace', [['fieldb', 'description'], ['str', r'^SQ\s*\*\s*'], ['str', '']]],
        ['call', 'strip_prefix', [['fieldb', 'description'], ['str', 'TST*']]],
        ['call', 'strip_suffix', [['fieldb', 'description'], ['str', ' WA']]],
        ['call', 'uppercase', [['fieldb', 'description']]],
        ['call', 'trim', [['fieldb', 'description']]],
        ['call', 'regex_replace', [['fieldb', 'description'], ['str', 'UBER'], ['str', 'LYFT']]],
        ['concat', ['fieldb', 'description'], ['str', ' NETFLIX']],
        ['field', 'nosuch'],
        ['bin', '+', ['name', 'amount'], ['num', 1]],
        # the description rebuilt from a custom field that an EARLIER transform may have rewritten
        ['concat', ['fieldb', 'description'], ['concat', ['str', ' '], ['field', 'memo']]],
        ['field', 'memo'],
    ])).map(list),
    st.tuples(st.sampled_from(['memo', 'type']), st.sampled_from([
        ['call', 'trim', [['field', 'memo']]],
        ['call', 'lowercase', [['field', 'type']]],
        ['str', 'WIRE'],
        ['call', 'extract', [['str', r'REF:(\d+)']]],
        ['field', 'nosuch'],
        # second-stage transforms: they read what an earlier transform of the same (or the other) custom field produced
        ['call', 'strip_prefix', [['field', 'memo'], ['str', 'REF']]],
        ['call', 'uppercase', [['field', 'memo']]],
        ['call', 'regex_replace', [['field', 'memo'], ['str', r'\s+'], ['str', '']]],
        ['field', 'type'],
        ['concat', ['field', 'memo'], ['str', '!']],
    ])).map(list),
)

variable = st.one_of(
    st.tuples(st.just('is_large'), st.one_of(st.sampled_from([['cmp', ['name', 'amount'], [['>', ['num', 100]]]],
                                                               ['cmp', ['field', 'nosuch'], [['==', ['str', 'x']]]]]),
                                             lang.bool_expr(1))).map(list),
    st.tuples(st.just('threshold'), st.sampled_from(lang.CONSTS).map(lambda c: ['num', c])).map(list),
    st.tuples(st.just('label'), st.one_of(st.just(['name', 'source']), st.just(['field', 'type']), lang.pattern_text.map(lambda s: ['str', s]))).map(list),
)


@st.composite
def plain_rule(draw, tag_only_p=3):
    """The everyday rule: a description pattern (or amount test), static and dynamic tags - the tags and field: values are the ONLY readers of
    custom fields / source / location / date, so anything remembered per description must still see them."""
    tag_only = draw(st.integers(0, 9)) < tag_only_p
    m = draw(st.one_of(lang.word.map(lambda w: ['match', 'contains', None, w]), lang.word.map(lambda w: ['match', 'regex', None, w]),
                       st.sampled_from(lang.CONSTS).map(lambda c: ['cmp', ['name', 'amount'], [['>', ['num', c]]]]), st.just(['match', 'contains', None, ''])))
    if draw(st.integers(0, 2)) == 0:
        # ... narrowed by ONE other input of the transaction (where it was bought, which card, a statement column)
        side = draw(st.sampled_from([
            ['cmp', ['txn', 'location'], [['==', ['str', draw(st.sampled_from(lang.LOCATIONS))]]]],
            ['cmp', ['name', 'location'], [['!=', ['str', draw(st.sampled_from(lang.LOCATIONS))]]]],
            ['cmp', ['name', 'source'], [['==', ['str', draw(st.sampled_from(lang.SOURCES))]]]],
            ['cmp', ['txn', 'source'], [['!=', ['str', draw(st.sampled_from(lang.SOURCES))]]]],
            ['match', 'contains', ['field', 'memo'], 'REF'],
            ['cmp', ['name', 'month'], [['==', ['num', draw(st.sampled_from([1, 6, 12]))]]]],
        ]))
        m = ['and', [m, side]] if draw(st.booleans()) else ['and', [side, m]]
    tags = draw(st.lists(tag, min_size=1, max_size=3))
    if tag_only and not any(isinstance(t, str) and t.strip() for t in tags):
        tags = tags + ['tagonly']
    return {'name': draw(st.sampled_from(RULE_NAMES)), 'match': m, 'category': '' if tag_only else draw(st.sampled_from(CATEGORIES)), 'subcategory': draw(st.sampled_from(SUBCATS)),
            'merchant': None, 'priority': None, 'tags': tags, 'lets': [],
            'fields': draw(st.lists(st.tuples(st.sampled_from(['note', 'who']), st.sampled_from([['field', 'memo'], ['name', 'source'], ['txn', 'location'], ['name', 'month']])).map(list),
                                    max_size=1))}


@st.composite
def rule_file(draw, max_rules=8, depth=2, transforms=True, tag_only_p=3):
    if draw(st.integers(0, 5)) == 0:
        return {'vars': [], 'transforms': [], 'rules': draw(st.lists(plain_rule(tag_only_p), min_size=1, max_size=min(max_rules, 4)))}
    rules = draw(st.lists(rule(depth, tag_only_p), min_size=0, max_size=max_rules))
    vs = draw(st.lists(variable, max_size=3, unique_by=lambda v: v[0]))
    if rules and draw(st.integers(0, 3)) == 0:
        # the documented idiom `is_coffee = anyof("STARBUCKS", "PEETS")`: a top-level variable that reads the description only through
        # the match functions, used by a categorizing rule - its value differs from transaction to transaction
        ws = draw(st.lists(lang.word, min_size=1, max_size=2, unique=True))
        vs = vs + [['is_listed', ['anyof', ws] if len(ws) > 1 or draw(st.booleans()) else ['match', draw(st.sampled_from(['contains', 'startswith', 'regex'])), None, ws[0]]]]
        i = draw(st.integers(0, len(rules) - 1))
        rules[i] = dict(rules[i], match=draw(st.sampled_from([['var', 'is_listed'], ['and', [['var', 'is_listed'], rules[i]['match']]], ['or', [rules[i]['match'], ['var', 'is_listed']]],
                                                               ['not', ['var', 'is_listed']]])))
    return {
        'vars': vs,
        'transforms': draw(st.lists(transform, max_size=3)) if transforms else [],
        'rules': rules,
    }


def patterns_of(rf):
    pats = []
    for r in list(rf['rules']) + [{'match': e} for _, e in rf.get('vars', [])]:
        for n in lang.walk(r['match']):
            if n[0] == 'match' and n[1].lower() != 'regex':
                pats.append(n[3])
            elif n[0] == 'anyof':
                pats.extend(n[1])
    return [p for p in pats if p.strip()]


@st.composite
def txn_for(draw, rf):
    """A transaction whose description overlaps the file's own patterns (so rules match often)."""
    t = draw(lang.txn_case)
    pats = patterns_of(rf)
    if pats and draw(st.integers(0, 3)) > 0:
        parts = draw(st.lists(st.one_of(st.sampled_from(pats), lang.word), min_size=1, max_size=3))
        pre = draw(st.sampled_from(['', '', 'APLPAY ', 'SQ *', 'TST*']))
        t = dict(t, description=lang.flip_case(pre + draw(st.sampled_from([' ', ' ', '*', '  '])).join(parts),
                                               draw(st.one_of(st.just(0), st.integers(0, 65535)))))
    return nonzero(t)


def nonzero(t):
    """A transaction has a non-zero amount (zero-amount rows are not transactions, C05); normalize_merchant's `amount or 0` would turn 0.0 into int 0."""
    return dict(t, amount=0.01) if t['amount'] == 0 else t


@st.composite
def txn_list(draw, rf, min_size=2, max_size=4):
    """Transactions for one engine, often including a TWIN of one of them that differs in exactly one input (custom fields, source,
    location, date, amount or letter case of the description): whatever is remembered between transactions must depend on all of them."""
    txns = draw(st.lists(txn_for(rf), min_size=min_size, max_size=max_size))
    for _ in range(draw(st.sampled_from([0, 1, 1, 2]))):
        base = draw(st.sampled_from(txns))
        dim = draw(st.sampled_from(['field', 'field', 'source', 'location', 'date', 'amount', 'case']))
        if dim == 'case':
            twin = dict(base, description=lang.flip_case(base['description'], draw(st.integers(1, 65535))))
        elif dim == 'field':
            # every custom field present gets a DIFFERENT, non-empty value (an observable difference, not '' versus ' ')
            keys = list(base['field']) if base.get('field') else lang.FIELD_KEYS
            twin = dict(base, field={k: draw(st.sampled_from([v for v in lang.FIELD_VALUES + ['alice', 'REF:123 PROJ:zeta'] if v.strip() and v != (base.get('field') or {}).get(k)]))
                                     for k in keys})
        else:
            alt = {'source': st.sampled_from(lang.SOURCES), 'location': st.sampled_from(lang.LOCATIONS), 'date': lang.iso_date, 'amount': lang.amount}[dim]
            twin = dict(base, **{dim: draw(alt.filter(lambda v: v != base.get(dim)))})
        txns.insert(draw(st.integers(0, len(txns))), nonzero(twin))
    return txns


# ------------------------------------------------------------------------------------------------
# rendering
# ------------------------------------------------------------------------------------------------
def render_tag(t):
    return t if isinstance(t, str) else '{' + lang.render(t[1]) + '}'


def render_rule(r):
    lines = [f"[{r['name']}]"]
    for n, e in r.get('lets', []):
        lines.append(f'let: {n} = {lang.render(e)}')
    lines.append(f"match: {lang.render(r['match']) if isinstance(r['match'], list) else r['match']}")
    if r.get('category'):
        lines.append(f"category: {r['category']}")
    if r.get('subcategory'):
        lines.append(f"subcategory: {r['subcategory']}")
    if r.get('merchant'):
        lines.append(f"merchant: {r['merchant']}")
    if r.get('priority') is not None:
        lines.append(f"priority: {r['priority']}")
    if r.get('tags'):
        lines.append('tags: ' + ', '.join(render_tag(t) for t in r['tags']))
    for n, e in r.get('fields', []):
        lines.append(f'field: {n} = {lang.render(e)}')
    return lines


def render_file(rf):
    lines = ['# generated']
    for n, e in rf.get('vars', []):
        lines.append(f'{n} = {lang.render(e)}')
    for k, e in rf.get('transforms', []):
        lines.append(f'field.{k} = {lang.render(e)}')
    for r in rf['rules']:
        lines.append('')
        lines.extend(render_rule(r))
    return '\n'.join(lines) + '\n'


# ------------------------------------------------------------------------------------------------
# reference classification
# ------------------------------------------------------------------------------------------------
def ref_transforms(rf, txn):
    """Sequential field.* assignments; a failing transform is skipped; originals are kept by the caller."""
    t = dict(txn, field=None if txn.get('field') is None else dict(txn['field']))
    for k, e in rf.get('transforms', []):
        try:
            v = ref_eval(e, Env(t))
        except RefErr:
            continue
        except Unspecified:
            t['_unspecified_transform'] = True
            continue
        if k == 'description':
            t['description'] = str(v)
        else:
            if t.get('field') is None:
                continue  # no custom fields on this source: nothing to assign to (observed; generator avoids asserting more)
            t['field'][k] = str(v)
    return t


def ref_rule_env(rf, r, txn, rows):
    """(variables after lets) for one rule."""
    gv = {}
    for n, e in rf.get('vars', []):
        try:
            gv[n.lower()] = ref_eval(e, Env(txn, {}, rows))
        except RefErr:
            pass
    v = dict(gv)
    for n, e in r.get('lets', []):
        try:
            v[n.lower()] = ref_eval(e, Env(txn, v, rows))
        except RefErr:
            v[n.lower()] = None
    return v


def ref_truth(rf, r, txn, rows):
    """True / False; an unevaluable rule is skipped (False).  Unspecified propagates."""
    v = ref_rule_env(rf, r, txn, rows)
    try:
        return bool(ref_eval(r['match'], Env(txn, v, rows))), v
    except RefErr:
        return False, v


def ref_tags(r, txn, v, rows):
    out = set()
    for t in r.get('tags', []):
        if isinstance(t, str):
            s = t.strip().lower()
            if s:
                out.add(s)
            continue
        try:
            val = ref_eval(t[1], Env(txn, v, rows))
        except RefErr:
            continue
        if not val:
            continue
        items = val if isinstance(val, list) else [val]
        for it in items:
            if it or not isinstance(val, list):
                s = str(it).strip().lower()
                if s:
                    out.add(s)
    return out


def ref_fields(r, txn, v, rows):
    out = {}
    for n, e in r.get('fields', []):
        try:
            out[n.lower()] = ref_eval(e, Env(txn, v, rows))
        except RefErr:
            pass
    return out


def ref_classify(rf, txn, rows):
    """first_match classification of one (already mk_txn'd) transaction.  Returns dict or raises Unspecified."""
    t = ref_transforms(rf, txn)
    truths = []
    tags = set()
    winner = None
    wvars = None
    for i, r in enumerate(rf['rules']):
        tr, v = ref_truth(rf, r, t, rows)
        truths.append(tr)
        if tr:
            tags |= ref_tags(r, t, v, rows)
            if winner is None and r.get('category'):
                winner, wvars = i, v
    res = {'truths': truths, 'tags': tags, 'winner': winner, 'description': t['description'], 'field': t.get('field'), 'state_known': not t.get('_unspecified_transform')}
    if winner is not None:
        r = rf['rules'][winner]
        res.update(merchant=r.get('merchant') or r['name'], category=r['category'], subcategory=r.get('subcategory', ''),
                   extra_fields=ref_fields(r, t, wvars, rows))
    else:
        res.update(merchant=None, category='Unknown', subcategory='Unknown', extra_fields={})
    return res
