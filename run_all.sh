#!/bin/bash
# run every registered quick (or $1) check on the real tree; prints one line per check
cd "$(dirname "$0")"; tier=${1:-quick}
for id in $(/venv/bin/python -c "import json; print(' '.join(c['property_id'] for c in json.load(open('MANIFEST.json'))['checks']))"); do
  out=$(./vcheck $id --tier $tier 2>&1); rc=$?
  echo "$id rc=$rc $(echo "$out" | grep -E '^\[C' | tail -1) $(echo "$out" | grep -cE '^VIOLATION') viol $(echo "$out" | grep -c KNOWN-FINDING) known"
  [ $rc -ne 0 ] && echo "$out" | head -20
done
