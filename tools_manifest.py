#!/venv/bin/python
"""Regenerates MANIFEST.json from the table below (kept in one place so it is always schema-valid)."""
import json, os
V = os.path.dirname(os.path.abspath(__file__))
CHECKS = json.load(open(os.path.join(V, 'manifest_checks.json')))
props = [json.loads(l) for l in open(os.path.join(V, 'properties.jsonl'))]
checks, na = [], []
for p in props:
    c = CHECKS.get(p['id'])
    if not c or c.get('not_applicable'):
        na.append({'property_id': p['id'], 'reason': (c or {}).get('not_applicable', 'check not built yet in this round; no claim is made')})
        continue
    checks.append({
        'property_id': p['id'],
        'quick_cmd': f"./vcheck {p['id']} --tier quick",
        'thorough_cmd': f"./vcheck {p['id']} --tier thorough",
        'evidence_file': f"/verif/evidence/{p['id']}.json",
        'replay_cmd_template': f"./vcheck {p['id']} --replay {{path}}",
        'engine': 'tv',
        'level_claimed': {'category': c['level'], 'text': c['text'], 'design_ref': c.get('design_ref', 'DESIGN.md section 5, ' + p['id'])},
        'level_note': c['note'],
        'technique': c['technique'],
    })
m = {
    'version': 1,
    'setup_cmd': './setup.sh',
    'hooks': {'guard': 'TALLY_VERIF', 'enable': 'none needed: every observation point is a public function, a CLI command, a file on disk or an interpreter facility; checks import /repo/src directly (TALLY_SRC overrides, used only by the mutation self-test)',
              'baseline_off_cmd': 'cd /repo && /venv/bin/python -m pytest -ra -q -p no:cacheprovider --timeout=900 --continue-on-collection-errors',
              'source_commits': [], 'add_only': True},
    'engines': [{'name': 'tv', 'path': '/verif/tv', 'serves_properties': [c['property_id'] for c in checks],
                 'kind_free_text': 'Hypothesis property-based testing (seeded from VERIF_SEED, sharded over 16 processes) with explicit oracles: reference models, metamorphic relations, differentials, exhaustive finite sub-domains'}],
    'checks': checks,
    'not_applicable': na,
    'notes': 'See DESIGN.md. known_findings.json lists genuine defects (fixed / known). Exit 2 = harness error, never a verdict.',
}
json.dump(m, open(os.path.join(V, 'MANIFEST.json'), 'w'), indent=1)
print(len(checks), 'checks;', len(na), 'not claimed')
